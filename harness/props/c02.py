"""C02 - ACSE APDUs (AARQ/AARE/RLRQ/RLRE) encode to valid BER and decode back unchanged."""
from harness import framework as fw
from harness.props import c01


def oh(b):
    return "none" if b is None else fw.hx(b)


def on(x):
    return "none" if x is None else str(x)


def ber_walk(data, depth=0):
    """independent check of tag-length-value nesting (definite lengths): returns None if well-formed, else a message."""
    i = 0
    while i < len(data):
        if i + 2 > len(data):
            return f"truncated header at {i} (depth {depth})"
        tag = data[i]
        ln = data[i + 1]
        i += 2
        if ln >= 0x80:
            k = ln & 0x7F
            if k == 0 or i + k > len(data):
                return f"bad long length at {i} (depth {depth})"
            ln = int.from_bytes(data[i:i + k], "big")
            i += k
        if i + ln > len(data):
            return f"length {ln} of tag {tag:#x} exceeds its frame (depth {depth})"
        if tag & 0x20:
            r = ber_walk(data[i:i + ln], depth + 1)
            if r:
                return r
        i += ln
    return None


def top_level_tags(data):
    """tags of the components directly inside the outermost TLV."""
    i = 2 + ((data[1] & 0x7F) if data[1] >= 0x80 else 0)
    out = []
    while i + 2 <= len(data):
        out.append(data[i])
        ln = data[i + 1]
        i += 2
        if ln >= 0x80:
            k = ln & 0x7F
            ln = int.from_bytes(data[i:i + k], "big")
            i += k
        i += ln
    return out


def user_info_obj(d):
    """UserInformation holding an xDLMS APDU built from a C01 value description (or None)."""
    if d is None:
        return None, None
    from dlms_cosem.protocol import acse
    o = c01.build(d)
    return acse.UserInformation(content=o), o.to_bytes()


def mech_enum(m):
    from dlms_cosem import enumerations as en
    return None if m is None else en.AuthenticationMechanism(m)


def overwrite(b):
    """the caller overwrites a decoded ACSE value in place (fields, the user-information and what it holds - the connection
    itself replaces a ciphered initiate response by the deciphered one): a later decode of the same bytes is unaffected."""
    ui = getattr(b, "user_information", None)
    fw.scribble(b)
    if ui is not None:
        try:
            ui.content = None
        except Exception:  # noqa
            pass


def canon_ui(ui):
    return "none" if ui is None else c01.canon(ui.content)


def norm_mech(m):
    return None if m is None or int(m) == 0 else int(m)


class C02(fw.Prop):
    id = "C02"
    anchors = ["dlms_cosem/ber.py", "dlms_cosem/protocol/acse/aarq.py", "dlms_cosem/protocol/acse/aare.py",
               "dlms_cosem/protocol/acse/rlrq.py", "dlms_cosem/protocol/acse/rlre.py", "dlms_cosem/protocol/acse/base.py",
               "dlms_cosem/protocol/acse/user_information.py"]
    design_ref = "DESIGN.md §6 C02"
    rule = ("ciphered/plain x every authentication mechanism (and none) x system titles / certificates of length 0,1,8,63,64 and the lengths "
            "that push inner and outer TLVs across 127/128 and 255/256 x passwords/challenges of length 0,1,8,32,63,64 x every result x "
            "every diagnostic x every release reason x plain and ciphered user-information from the C01 generator x optional components "
            "absent/empty/long; inconsistent combinations (mechanism none with a password, LLS without one) generated on purpose; each value: "
            "to_bytes() = Spec.Acse.encode (driver), independent BER nesting walk, from_bytes(to_bytes()) canonically equal; "
            "every decoded AARQ/AARE/RLRQ/RLRE is overwritten in place (fields, user-information) and the bytes decoded again; ciphered user-information of 100..1000 and 65 600 bytes in every APDU kind; ciphered user-information with every security-control variant (key-set / compression bits alone and together) and lengths 246..256, 65531; non-trivial = distinct protocol line")
    trusted_base = ["Spec.Acse is my reading of the Green Book ACSE APDUs", "C01 for the xDLMS APDU inside user-information",
                    "asn1crypto's DER writer for the result-source-diagnostic"]
    assumptions = ["the pass-through components the library gives no meaning to (called-AP-title etc., implementation-information) are absent",
                   "mechanism NONE (0) and 'no mechanism' are identified"]
    technique = "Lean 4 proof: BER nesting well-formed at every level, decode∘encode = id for the four APDUs, authentication components ⇔ mechanism, definite-length round trip; tag tables and OIDs decided against the code; differential correspondence to_bytes vs the Lean spec"
    level_text = ("C02_wellFormed_* / C02_decode_encode_* / C02_auth_iff_* / C02_berLen_roundtrip: theorems about the standard BER layout and the model of the PARSE_TAGS-driven "
                  "decoders (tag tables regenerated from the code) for every value with components of the sizes the quantifier names. Tied to the code by byte-for-byte comparison of "
                  "to_bytes() with the Lean spec, an independent nesting walk and the round trip on the live code.")
    level_note = "Trusted: Lean kernel (+propext, Classical.choice, Quot.sound), Spec.Acse, extract.py, asn1crypto, the correspondence harness."
    chunk = 2500

    def make_case(self, d):
        if d.get("ui") is not None:
            # (the user-information bytes of the driver line are the library's xDLMS encoding - C01's subject; if the library
            #  cannot even produce them for a value of the domain, that is what the case reports)
            try:
                user_info_obj(d["ui"])
            except fw._Timeout:
                raise
            except Exception as e:  # noqa
                name = type(e).__name__
                return fw.Case("echo user-information", lambda: "ok user-information !cannot-be-encoded:" + name, "prop", d, tags=(d["k"], "ui-not-encodable"))
        return self.make_case_(d)

    def make_case_(self, d):
        k = d["k"]
        from_hex = lambda x: None if x is None else bytes.fromhex(x)
        if k == "aarq":
            title, cert, val = from_hex(d["title"]), from_hex(d["cert"]), from_hex(d["val"])

            def impl():
                from dlms_cosem.protocol import acse
                ui, uib = user_info_obj(d["ui"])
                a = acse.ApplicationAssociationRequest(user_information=ui, system_title=title, public_cert=cert,
                                                       authentication=mech_enum(d["mech"]), ciphered=bool(d["ciph"]),
                                                       authentication_value=val)
                bs = a.to_bytes()
                w = ber_walk(bs)
                if w:
                    return "ok " + fw.hx(bs) + " ber-nesting: " + w
                wf = (d["mech"] not in (None, 0)) or val is None
                if wf:
                    want_ui = canon_ui(a.user_information)
                    for attempt in ("decoded-differs", "second-decode-differs"):
                        b = acse.ApplicationAssociationRequest.from_bytes(bs)
                        same = (b.ciphered == a.ciphered and (b.system_title or None) == (title or None) and (b.public_cert or None) == (cert or None)
                                and norm_mech(b.authentication) == norm_mech(a.authentication)
                                and (None if b.authentication_value is None else bytes(b.authentication_value)) == val
                                and canon_ui(b.user_information) == want_ui)
                        if not same:
                            return "ok " + fw.hx(bs) + f" {attempt}: " + repr(b)[:160]
                        overwrite(b)
                return "ok " + fw.hx(bs)
            _, uib = user_info_obj(d["ui"])
            line = f"acse aarq {d['ciph']} {oh(title)} {oh(cert)} {on(d['mech'])} {oh(val)} {fw.hx(uib)}"
            return fw.Case(line, impl, "prop", d, tags=("aarq",))
        if k == "aare":
            title, cert, val = from_hex(d["title"]), from_hex(d["cert"]), from_hex(d["val"])

            def impl():
                from dlms_cosem.protocol import acse
                from dlms_cosem import enumerations as en
                ui, uib = user_info_obj(d["ui"])
                diag = en.AcseServiceUserDiagnostics(d["diag"]) if d["du"] else en.AcseServiceProviderDiagnostics(d["diag"])
                a = acse.ApplicationAssociationResponse(result=en.AssociationResult(d["res"]), result_source_diagnostics=diag,
                                                        ciphered=bool(d["ciph"]), authentication=mech_enum(d["mech"]), system_title=title,
                                                        public_cert=cert, authentication_value=val, user_information=ui)
                bs = a.to_bytes()
                w = ber_walk(bs)
                if w:
                    return "ok " + fw.hx(bs) + " ber-nesting: " + w
                wf = (d["mech"] not in (None, 0)) or val is None
                if wf:
                    want_ui, want_res, want_diag = canon_ui(a.user_information), a.result, a.result_source_diagnostics
                    for attempt in ("decoded-differs", "second-decode-differs"):
                        b = acse.ApplicationAssociationResponse.from_bytes(bs)
                        same = (b.ciphered == bool(d["ciph"]) and b.result == want_res and b.result_source_diagnostics == want_diag
                                and type(b.result_source_diagnostics) is type(want_diag)
                                and (b.system_title or None) == (title or None) and (b.public_cert or None) == (cert or None)
                                and norm_mech(b.authentication) == norm_mech(mech_enum(d["mech"]))
                                and (None if b.authentication_value is None else bytes(b.authentication_value)) == val
                                and canon_ui(b.user_information) == want_ui)
                        if not same:
                            return "ok " + fw.hx(bs) + f" {attempt}: " + repr(b)[:160]
                        overwrite(b)
                return "ok " + fw.hx(bs)
            _, uib = user_info_obj(d["ui"])
            line = (f"acse aare {d['ciph']} {d['res']} {d['du']} {d['diag']} {oh(title)} {oh(cert)} {on(d['mech'])} {oh(val)} "
                    f"{'none' if uib is None else fw.hx(uib)}")
            return fw.Case(line, impl, "prop", d, tags=("aare",))
        if k == "aarq-extra":
            # components the Lean specification does not describe (pass-through identifiers, implementation information):
            # checked on the harness side only - well-formed BER, every component that was set is present under its tag
            # exactly once, the value decodes back unchanged, and a re-used, modified object encodes like a fresh one
            fields = {x: from_hex(v) for x, v in d["fields"].items()}

            def impl():
                from dlms_cosem.protocol import acse
                ui, _ = user_info_obj(d["ui"])
                base = dict(user_information=ui, system_title=from_hex(d["title"]), authentication=mech_enum(d["mech"]), ciphered=bool(d["ciph"]),
                            authentication_value=from_hex(d["val"]))
                a = acse.ApplicationAssociationRequest(**base, **fields)
                bs = a.to_bytes()
                w = ber_walk(bs)
                if w:
                    return "ok aarq-extra ber-nesting: " + w
                tags = {"calling_ap_invocation_identifier": 0xA8, "calling_ae_invocation_identifier": 0xA9, "called_ap_title": 0xA2,
                        "called_ae_qualifier": 0xA3, "called_ap_invocation_identifier": 0xA4, "called_ae_invocation_identifier": 0xA5,
                        "implementation_information": 0xBD}
                top = top_level_tags(bs)
                for name, v in fields.items():
                    if v is not None and top.count(tags[name]) != 1:
                        return f"ok aarq-extra component-{name}-occurs-{top.count(tags[name])}-times " + fw.hx(bs)
                b = acse.ApplicationAssociationRequest.from_bytes(bs)
                for name, v in fields.items():
                    got = getattr(b, name)
                    if (None if got is None else bytes(got)) != v:
                        return f"ok aarq-extra decoded-differs-{name}: {got!r}"
                # re-used object: first serialised with other values
                o = acse.ApplicationAssociationRequest(user_information=ui, system_title=b"OTHER123", authentication=mech_enum(d["omech"]),
                                                       ciphered=not bool(d["ciph"]), authentication_value=from_hex(d["oval"]))
                o.to_bytes()
                for name, v in {**base, **fields}.items():
                    setattr(o, name, v)
                if bytes(o.to_bytes()) != bytes(bs):
                    return "ok aarq-extra reused-object-differs-from-fresh " + fw.hx(o.to_bytes()) + " " + fw.hx(bs)
                return "ok aarq-extra"
            return fw.Case("echo aarq-extra", impl, "prop", d, tags=("aarq-extra",))
        if k in ("rlrq", "rlre"):
            def impl():
                from dlms_cosem.protocol import acse
                from dlms_cosem import enumerations as en
                ui, uib = user_info_obj(d["ui"])
                if k == "rlrq":
                    cls, reason = acse.ReleaseRequest, (None if d["reason"] is None else en.ReleaseRequestReason(d["reason"]))
                else:
                    cls, reason = acse.ReleaseResponse, (None if d["reason"] is None else en.ReleaseResponseReason(d["reason"]))
                a = cls(reason=reason, user_information=ui)
                bs = a.to_bytes()
                w = ber_walk(bs)
                if w:
                    return "ok " + fw.hx(bs) + " ber-nesting: " + w
                want_ui = canon_ui(a.user_information)
                for attempt in ("decoded-differs", "second-decode-differs"):
                    b = cls.from_bytes(bs)
                    if not (b.reason == reason and canon_ui(b.user_information) == want_ui):
                        return "ok " + fw.hx(bs) + f" {attempt}: " + repr(b)[:160]
                    overwrite(b)
                return "ok " + fw.hx(bs)
            _, uib = user_info_obj(d["ui"])
            line = f"acse {k} {on(d['reason'])} {'none' if uib is None else fw.hx(uib)}"
            return fw.Case(line, impl, "prop", d, tags=(k,))
        raise fw.MachineryError(k)

    def cases(self, rng, tier, deep):
        mk = self.make_case

        def rb(n):
            return bytes(rng.getrandbits(8) for _ in range(n)).hex()

        def ireq(key_len=0):
            return dict(k="ireq", key=rb(key_len), ra=1, qos=0, ver=6, conf=rng.getrandbits(17), maxpdu=rng.choice([0, 1, 12, 255, 256, 1200, 65534, 65535]))

        def ires():
            return dict(k="ires", qos=0, ver=6, conf=rng.getrandbits(17), maxpdu=rng.choice([0, 1, 12, 500, 65535]))

        SCS = [0x30, 0x30, 0x31, 0x32, 0x70, 0xB0, 0xF0, 0x10, 0x20, 0x72, 0xB1]      # (key-set and compression bits alone and together)

        def gireq(n):
            return dict(k="gireq", sc=rng.choice(SCS), ic=rng.getrandbits(32), data=rb(n))

        def gires(n):
            return dict(k="gires", sc=rng.choice(SCS), ic=rng.getrandbits(32), data=rb(n))

        def cse():
            return dict(k="cse", t=6, v=rng.randint(0, 4))
        LEN = [0, 1, 8, 32, 63, 64]
        mechs = [None, 0, 1, 2, 3, 4, 5, 6, 7]
        # AARQ
        for m in mechs:
            for vl in ([None] + LEN if deep or m in (None, 0, 1, 5) else [None, 8, 64]):
                for ciph in (0, 1):
                    for tl in ([None, 8] if not deep else [None, 0, 1, 8, 63, 64]):
                        ui = rng.choice([ireq(), ireq(16), gireq(31), gireq(63), gireq(100)])
                        yield mk(dict(k="aarq", ciph=ciph, title=None if tl is None else rb(tl), cert=rng.choice([None, rb(rng.choice(LEN))]),
                                      mech=m, val=None if vl is None else rb(vl), ui=ui))
        # lengths that push the outer TLV across 127/128 and 255/256
        for extra in list(range(20, 60)) + list(range(150, 190)) + [200, 230]:
            yield mk(dict(k="aarq", ciph=1, title=rb(8), cert=rb(min(extra, 64)), mech=5, val=rb(min(64, max(0, extra - 64))),
                          ui=gireq(max(0, min(120, extra - 128)) + 20)))
        # pass-through components of the AARQ (user id = calling-AE-invocation-id, ...) one by one, in pairs and all together;
        # each also produced from a re-used object
        names = ["calling_ap_invocation_identifier", "calling_ae_invocation_identifier", "called_ap_title", "called_ae_qualifier",
                 "called_ap_invocation_identifier", "called_ae_invocation_identifier", "implementation_information"]
        sets = [[n] for n in names] + [[a, b] for a in names[:2] for b in names if a != b] + [names]
        for fs in sets:
            for m, val in ((None, None), (1, rb(8)), (5, rb(16))):
                om, oval = rng.choice([(None, None), (1, rb(8)), (5, rb(16)), (2, rb(4))])
                yield mk(dict(k="aarq-extra", ciph=rng.randint(0, 1), title=rng.choice([None, rb(8)]), mech=m, val=val, omech=om, oval=oval, ui=ireq(),
                              fields={n: "0201" + "%02x" % rng.randrange(256) for n in fs}))
        # AARE
        from dlms_cosem import enumerations as en
        for res in (0, 1, 2):
            for du, diags in ((1, [int(x) for x in en.AcseServiceUserDiagnostics]), (0, [int(x) for x in en.AcseServiceProviderDiagnostics])):
                for dg in diags:
                    m = rng.choice(mechs)
                    yield mk(dict(k="aare", ciph=rng.randint(0, 1), res=res, du=du, diag=dg, title=rng.choice([None, rb(8)]),
                                  cert=rng.choice([None, rb(rng.choice(LEN))]), mech=m,
                                  val=rng.choice([None, rb(rng.choice(LEN))]) if m not in (None, 0) or rng.random() < 0.2 else None,
                                  ui=rng.choice([None, ires(), gires(30), gires(110), cse()])))
        for m in mechs:
            for vl in [None] + LEN:
                yield mk(dict(k="aare", ciph=1, res=0, du=1, diag=0, title=rb(8), cert=None, mech=m, val=None if vl is None else rb(vl),
                              ui=rng.choice([ires(), gires(40)])))
        # releases
        for reason in (None, 0, 1, 30):
            for ui in (None, ireq(), gireq(31), gireq(150)):
                yield mk(dict(k="rlrq", reason=reason, ui=ui))
            for ui in (None, ires(), gires(31), gires(150)):
                yield mk(dict(k="rlre", reason=reason, ui=ui))
        # ciphered user-information of every length class in every APDU kind: content lengths across 127/128, 255/256/257, 300,
        # 1000, 65535/65536 (long-form lengths of 1, 2 and 3 bytes)
        for n in [100, 118, 119, 120, 121, 122, 123, 230, 236, 237, 238, 239, 240, 241, 245, 248, 249, 250, 251, 252, 253, 256, 300, 1000] + \
                ([65400, 65530, 65531, 65535, 65600] if deep else [65531, 65600]):
            yield mk(dict(k="rlrq", reason=rng.choice([None, 0, 1, 30]), ui=gireq(n)))
            yield mk(dict(k="rlre", reason=rng.choice([None, 0, 1, 30]), ui=gires(n)))
            yield mk(dict(k="aarq", ciph=1, title=rb(8), cert=None, mech=rng.choice([None, 5]), val=None, ui=gireq(n)))
            yield mk(dict(k="aarq", ciph=1, title=rb(8), cert=None, mech=5, val=rb(16), ui=gireq(n)))
            yield mk(dict(k="aare", ciph=1, res=0, du=1, diag=0, title=rb(8), cert=None, mech=rng.choice([None, 5]), val=None, ui=gires(n)))
        for _ in range(4000 if deep else 300):
            m = rng.choice(mechs)
            kind = rng.choice(["aarq", "aare", "rlrq", "rlre"])
            if kind == "aarq":
                yield mk(dict(k="aarq", ciph=rng.randint(0, 1), title=rng.choice([None, rb(rng.choice(LEN))]), cert=rng.choice([None, rb(rng.choice(LEN))]),
                              mech=m, val=rng.choice([None, rb(rng.choice(LEN))]), ui=rng.choice([ireq(), ireq(32), gireq(rng.randint(0, 200))])))
            elif kind == "aare":
                du = rng.randint(0, 1)
                yield mk(dict(k="aare", ciph=rng.randint(0, 1), res=rng.randint(0, 2), du=du, diag=rng.randint(0, 14 if du else 2),
                              title=rng.choice([None, rb(rng.choice(LEN))]), cert=rng.choice([None, rb(rng.choice(LEN))]), mech=m,
                              val=rng.choice([None, rb(rng.choice(LEN))]), ui=rng.choice([None, ires(), gires(rng.randint(0, 200)), cse()])))
            else:
                yield mk(dict(k=kind, reason=rng.choice([None, 0, 1, 30]),
                              ui=rng.choice([None, ireq() if kind == "rlrq" else ires(), (gireq if kind == "rlrq" else gires)(rng.randint(0, 200))])))


PROP = C02()
