"""C11 - HDLC link follows the NRM client procedure with mod-8 numbering."""
import itertools

from harness import framework as fw

KINDS = ["snrm", "ua", "disc", "rr", "i", "ui"]


def _addr():
    from dlms_cosem.hdlc.address import HdlcAddress
    return HdlcAddress(1, None, "client"), HdlcAddress(1, 17, "server")


def build_frame(kind, direction, ssn, rsn):
    """a well-formed frame object of that kind; direction 's' = client->meter."""
    from dlms_cosem.hdlc import frames
    client, server = _addr()
    dst, src = (server, client) if direction == "s" else (client, server)
    if kind == "snrm":
        return frames.SetNormalResponseModeFrame(dst, src)
    if kind == "ua":
        return frames.UnNumberedAcknowledgmentFrame(dst, src, b"")
    if kind == "disc":
        return frames.DisconnectFrame(dst, src)
    if kind == "rr":
        return frames.ReceiveReadyFrame(dst, src, receive_sequence_number=rsn)
    if kind in ("i", "i0", "iseg") or kind.startswith("ilen"):
        # "i0": poll/final bit clear; "iseg": a segment (segmented bit set); "ilen<n>": an information field of n bytes (0, more
        # than the default maximum of 128, the longest a frame can hold) - information frames all the same
        payload = b"\xe6\xe7\x00\x01\x02" if not kind.startswith("ilen") else bytes((i * 5 + 1) % 256 for i in range(int(kind[4:])))
        return frames.InformationFrame(dst, src, payload, send_sequence_number=ssn,
                                       receive_sequence_number=rsn, final=(kind != "i0"), segmented=(kind == "iseg"))
    if kind in ("rnr", "rej", "srej"):
        # the other supervisory frames of HDLC (receive-not-ready, reject, selective reject): no class in the library; built by
        # hand from a receive-ready frame.  For the procedure they are frames the client does not accept (like UI).
        raw = bytearray(frames.ReceiveReadyFrame(dst, src, receive_sequence_number=rsn).to_bytes())
        pos = len(raw) - 4
        raw[pos] = (raw[pos] & 0xF0) | {"rnr": 0x5, "rej": 0x9, "srej": 0xD}[kind]
        from dlms_cosem.crc import CRCCCITT
        raw[-3:-1] = CRCCCITT().calculate_for(bytes(raw[1:-3]))
        return RawFrame(bytes(raw))
    if kind.startswith("un") or kind.startswith("uh"):
        # any other unnumbered frame of HDLC (DM 0x0F/0x1F, FRMR 0x87/0x97, ...): a UA with its control byte replaced.  Not a UA.
        # ("un..": header + control + FCS; "uh..": with a header check sequence as well, the way the library writes a UA)
        from harness.props.c12 import x25_ref
        head = dst.to_bytes() + src.to_bytes() + bytes([int(kind[2:], 16)])
        n = 2 + len(head) + 2 + (2 if kind.startswith("uh") else 0)
        body = bytes([0xA0 | n >> 8, n & 0xFF]) + head
        if kind.startswith("uh"):
            body += x25_ref(body)
        return RawFrame(b"\x7e" + body + x25_ref(body) + b"\x7e")
    if kind == "ui":
        return frames.UnnumberedInformationFrame(dst, src, b"\x01\x02")
    raise ValueError(kind)


class RawFrame:
    def __init__(self, b):
        self.b = b

    def to_bytes(self):
        return self.b


# unnumbered control bytes (low bits 11) other than SNRM 83/93, DISC 43/53, UA 63/73, UI 03/13
OTHER_UNNUMBERED = ["un%02x" % c for c in range(256) if c & 3 == 3 and c & 0xEF not in (0x83, 0x43, 0x63, 0x03)]
OTHER_UNNUMBERED += [k.replace("un", "uh") for k in OTHER_UNNUMBERED]
I_LENGTHS = ["ilen0", "ilen1", "ilen128", "ilen129", "ilen500", "ilen2030"]
LINE_KIND = {**{k: "i" for k in ["ilen0", "ilen1", "ilen128", "ilen129", "ilen500", "ilen2030"]}, "i0": "i", "iseg": "i", "rnr": "ui", "rej": "ui", "srej": "ui", **{k: "ui" for k in OTHER_UNNUMBERED}}


def run_history(ops):
    """drive the real HdlcConnection; one output line per op (same format as the driver)."""
    from dlms_cosem.hdlc.connection import HdlcConnection
    from dlms_cosem.hdlc import state as hstate
    client, server = _addr()
    conn = HdlcConnection(server, client)
    outs = ["ok"]
    n_sent = n_recv = 0
    for d, k, ssn, rsn in ops:
        before = (conn.server_ssn, conn.server_rsn)
        frame = build_frame(k, d, ssn, rsn)
        if d == "s":
            r = fw.guarded(lambda: ("accepted", conn.send(frame))[0])
        else:
            conn.buffer = bytearray(frame.to_bytes())
            conn.buffer_search_position = 1

            def rx():
                # poll until a frame is delivered or no candidate end flag is left (a control
                # byte can equal the flag byte 0x7E: ssn=7, rsn=3, final)
                while True:
                    ev = conn.next_event()
                    if ev is not hstate.NEED_DATA:
                        return "accepted"
                    if conn.buffer.find(b"\x7e", conn.buffer_search_position) < 0:
                        return "needData"
            r = fw.guarded(rx)
            conn.buffer = bytearray()
            conn.buffer_search_position = 1
        res = r.replace("err ", "err-")
        acc = "acc" if res == "accepted" else "ref"
        st = repr(conn.state.current_state)
        outs.append(f"{acc} {st} {conn.server_ssn} {conn.server_rsn} | {res} {st} "
                    f"{conn.server_ssn} {conn.server_rsn} {conn.client_ssn} {conn.client_rsn}")
    return outs


class C11(fw.Prop):
    id = "C11"
    anchors = ["dlms_cosem/hdlc/state.py", "dlms_cosem/hdlc/connection.py", "dlms_cosem/hdlc/validators.py"]
    design_ref = "DESIGN.md §6 C11"
    exhaustive = True
    rule = ("exhaustive: from each of the 5 x 8 x 8 reachable (thorough; quick: 5 x 16 seeded) (phase, #sent mod 8, #received mod 8) configurations, reached by a "
            "canonical path on the real object, every frame kind (SNRM, UA, DISC, RR, I, UI) in both directions with every "
            "(ssn, rsn) in 8 x 8 for information frames; then random histories of 50..400 steps (70% procedure-legal steps) so "
            "that both counters wrap several times; each step compared with Spec.Nrm (accept/refuse, phase, next numbers) "
            "and with the model of the code (error class, all four counters); every other unnumbered control byte (DM, FRMR, ... 56 values, with and without header check sequence) received in every phase; information fields of 0, 1, 128, 129, 500 and 2030 bytes; non-trivial = distinct history")
    trusted_base = ["extract.py prints HDLC_STATE_TRANSITIONS / SEND_STATES / PARSE_METHODS as they are in the running code",
                    "Spec.Nrm is my reading of the NRM client procedure (window 1, modulo 8)"]
    assumptions = ["frames are delivered one at a time (the harness clears the receive buffer after each poll); chunked delivery is C10",
                   "an RR received while a response is awaited may be accepted or refused (the procedure allows it, C11 does not demand it)"]
    technique = "Lean 4 proof: refinement of an abstract NRM client (state = phase + counts of I-frames) by the model of HdlcConnection over the extracted tables, induction over histories; exhaustive differential correspondence on the reachable configuration graph"
    level_text = ("C11_step_refines / C11_history_refines / C11_counters_are_counts: for every history of sends and receives of any length the "
                  "model of HdlcConnection (run with the transition table, SEND_STATES and PARSE_METHODS regenerated from the code) accepts exactly "
                  "what the NRM client procedure accepts, is in the prescribed phase, refuses without changing anything, and its counters equal the "
                  "numbers of information frames sent/received modulo 8. The model is tied to the code by exhaustive comparison on all reachable "
                  "(phase, counter) configurations x all operations, plus long random histories.")
    level_note = ("Trusted: Lean kernel (+propext, Classical.choice, Quot.sound), extract.py, the correspondence harness; Spec.Nrm as the reading of "
                  "IEC 62056-46. Frame parsing itself is C09/C10.")

    def make_case(self, d):
        ops = [tuple(o) for o in d["ops"]]
        lines = ["link init"] + [f"link op {a} {LINE_KIND.get(k, k)} {s} {r}" for a, k, s, r in ops]
        return fw.Case(lines, lambda: run_history(ops), "split", d, tags=(d.get("tag", "history"),))

    # canonical path to (phase, nSent%8, nRecv%8)
    @staticmethod
    def path_to(phase, ns, nr):
        ops = [("s", "snrm", 0, 0), ("r", "ua", 0, 0)]
        sent = recv = 0
        # balanced exchanges first, then extra sends (each answered by RR-less trick: send I then receive I)
        while sent < ns or recv < nr:
            if sent < ns:
                ops.append(("s", "i", sent % 8, recv % 8))
                sent += 1
            else:
                ops.append(("s", "rr", 0, recv % 8))
            # now awaiting response
            if recv < nr:
                ops.append(("r", "i", recv % 8, sent % 8))
                recv += 1
            else:
                # need to get back to IDLE without receiving an I frame: not possible -> receive one more full cycle
                # (8 more received frames bring the counter back modulo 8)
                for _ in range(8):
                    ops.append(("r", "i", recv % 8, sent % 8))
                    recv += 1
                    ops.append(("s", "rr", 0, recv % 8))
                ops.pop()
        # now IDLE with (sent%8, recv%8) == (ns, nr)
        if phase == "IDLE":
            pass
        elif phase == "AWAITING_RESPONSE":
            ops.append(("s", "rr", 0, recv % 8))
        elif phase == "AWAITING_DISCONNECT":
            ops.append(("s", "disc", 0, 0))
        elif phase == "NOT_CONNECTED":
            ops += [("s", "disc", 0, 0), ("r", "ua", 0, 0)]
        elif phase == "AWAITING_CONNECTION":
            ops += [("s", "disc", 0, 0), ("r", "ua", 0, 0), ("s", "snrm", 0, 0)]
        return ops

    def cases(self, rng, tier, deep):
        phases = ["NOT_CONNECTED", "AWAITING_CONNECTION", "IDLE", "AWAITING_RESPONSE", "AWAITING_DISCONNECT"]
        pairs = list(itertools.product(range(8), range(8)))
        quick_pairs = set(rng.sample(pairs, 12)) | {(0, 0), (7, 7), (7, 3), (0, 7)}
        for ph in phases:
            for ns, nr in pairs:
                if not deep and (ns, nr) not in quick_pairs:
                    continue
                base = self.path_to(ph, ns, nr)
                probes = []
                for d in "sr":
                    for k in KINDS:
                        if k == "i":
                            nums = pairs if (deep or (ns + nr) % 4 == 0) else [(ns, nr), (nr, ns), ((ns + 1) % 8, nr), (ns, (nr + 1) % 8)]
                            for s, r in nums:
                                probes.append((d, k, s, r))
                        else:
                            probes.append((d, k, 0, nr if k == "rr" else 0))
                    # information frames with the poll/final bit clear or the segmented bit set carry numbers like any other;
                    # RR with every receive number (it acknowledges, it does not renumber); RNR / REJ / SREJ are not RR
                    for k in ["i0", "iseg"] + I_LENGTHS:
                        for s, r in [(ns, nr), (nr, ns)]:
                            probes.append((d, k, s, r))
                    if d == "r":
                        for r in range(8):
                            probes.append((d, "rr", 0, r))
                        for k in ("rnr", "rej", "srej"):
                            probes.append((d, k, 0, ns))
                        # DM, FRMR and every other unnumbered control byte: not a UA (all of them once per phase, the two DM
                        # and FRMR forms everywhere)
                        for k in (OTHER_UNNUMBERED if (ns, nr) in ((0, 0), (7, 3)) or deep else ["un0f", "un1f", "un87", "un97", "uh1f", "uh97"]):
                            probes.append((d, k, 0, 0))
                # each probe is followed by a legal continuation so that a refused step that
                # secretly changed something is exposed
                for p in probes:
                    yield self.make_case({"ops": base + [p, ("s", "i", ns, nr), ("s", "snrm", 0, 0)], "tag": "exhaustive-probe"})
        n = 3000 if deep else 100
        for _ in range(n):
            ln = rng.randint(50, 400)
            ops = []
            phase, sent, recv = "NOT_CONNECTED", 0, 0
            for _ in range(ln):
                if rng.random() < 0.7:
                    # a step the procedure allows
                    if phase == "NOT_CONNECTED":
                        op = ("s", "snrm", 0, 0); phase = "AWAITING_CONNECTION"
                    elif phase == "AWAITING_CONNECTION":
                        op = ("r", "ua", 0, 0); phase = "IDLE"
                    elif phase == "IDLE":
                        c = rng.random()
                        if c < 0.75:
                            op = ("s", "i", sent % 8, recv % 8); sent += 1; phase = "AWAITING_RESPONSE"
                        elif c < 0.93:
                            op = ("s", "rr", 0, recv % 8); phase = "AWAITING_RESPONSE"
                        else:
                            op = ("s", "disc", 0, 0); phase = "AWAITING_DISCONNECT"
                    elif phase == "AWAITING_RESPONSE":
                        op = ("r", "i", recv % 8, sent % 8); recv += 1; phase = "IDLE"
                    else:
                        op = ("r", "ua", 0, 0); phase = "NOT_CONNECTED"
                else:
                    op = (rng.choice("sr"), rng.choice(KINDS), rng.randrange(8), rng.randrange(8))
                    # keep the harness-side tracker exact only for steps it knows are refused;
                    # an accidentally legal random step is followed by re-synchronisation below
                    legal = {("NOT_CONNECTED", "s", "snrm"), ("AWAITING_CONNECTION", "r", "ua"), ("IDLE", "s", "rr"),
                             ("IDLE", "s", "disc"), ("AWAITING_DISCONNECT", "r", "ua")}
                    if (phase, op[0], op[1]) in legal or op[1] == "i":
                        continue
                ops.append(op)
            yield self.make_case({"ops": ops, "tag": "random-history"})


PROP = C11()
