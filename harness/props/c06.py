"""C06 - invocation counters: a fresh nonce per protected send, replays refused."""
from harness import connlib as cl
from harness import framework as fw
from harness.props.c03 import Path, MT, EK, AK


def run_with_nonce_log(cfg_json, ops):
    """runs the history with dlms_cosem.security.encrypt/gmac wrapped (inside this process) so that every nonce that
    reaches the AES-GCM primitive is observed, and evaluates C06 on what was observed."""
    from dlms_cosem import security
    cfg = cl.Cfg.from_json(cfg_json)
    lines, impl = cl.run_history(cfg_json, ops)
    log = []

    def oracle(trace, session):
        title = bytes.fromhex(cfg.title)
        mine = [(t, ic) for (_, t, ic) in log if t == title]
        seen = set()
        for n in mine:
            if n in seen:
                return f"C06 nonce used twice under the global key: title={n[0].hex()} counter={n[1]}"
            seen.add(n)
        for k, (_, ic) in enumerate(mine):
            if ic != cfg.cic + k:
                return f"C06 operation #{k} under the global key used counter {ic}, expected {cfg.cic + k}"
        # ... and what leaves the connection says the same: the k-th protected item (ciphered APDU or HLS proof) carries start+k
        from dlms_cosem.protocol import acse, xdlms
        k, sent = 0, list(session.sent)
        for t in trace:
            if not t["result"].startswith("ok"):
                continue
            carried = None
            if t["op"][0] == "send":
                _, _, wire = sent.pop(0)
                if wire[:1] == b"\xdb":
                    carried = xdlms.GeneralGlobalCipher.from_bytes(wire).invocation_counter
                elif wire[:1] in (b"\x60", b"\x62"):
                    ui = (acse.ApplicationAssociationRequest if wire[0] == 0x60 else acse.ReleaseRequest).from_bytes(wire).user_information
                    if ui is not None and isinstance(ui.content, xdlms.GlobalCipherInitiateRequest):
                        carried = ui.content.invocation_counter
            elif t["op"][0] == "hls":
                carried = int(t["result"].split()[2])
            if carried is None:
                continue
            if carried != cfg.cic + k:
                return f"C06 protected item #{k} left the connection carrying counter {carried}, expected {cfg.cic + k}"
            k += 1
        acc = []
        for t in trace:
            if t["op"][0] == "recv" and t["result"].startswith("ok") and t["bytes"][:1] in (b"\xdb", b"\x61", b"\x63"):
                from dlms_cosem.protocol import acse, xdlms
                ic = None
                if t["bytes"][:1] == b"\xdb":
                    ic = xdlms.GeneralGlobalCipher.from_bytes(t["bytes"]).invocation_counter
                else:
                    cls = acse.ApplicationAssociationResponse if t["bytes"][:1] == b"\x61" else acse.ReleaseResponse
                    ui = cls.from_bytes(t["bytes"]).user_information
                    if ui is not None and isinstance(ui.content, xdlms.GlobalCipherInitiateResponse):
                        ic = ui.content.invocation_counter
                if ic is None:
                    continue
                if acc and ic <= max(acc):
                    return f"C06 accepted a protected APDU with counter {ic} after {max(acc)}"
                acc.append(ic)
        return None

    def run():
        orig_enc, orig_gmac = security.encrypt, security.gmac

        def enc(security_control, system_title, invocation_counter, key, plain_text, auth_key):
            out = orig_enc(security_control, system_title, invocation_counter, key, plain_text, auth_key)
            log.append(("seal", bytes(system_title), invocation_counter))       # (only what really reached the primitive)
            return out

        def gm(security_control, system_title, invocation_counter, key, auth_key, challenge):
            out = orig_gmac(security_control, system_title, invocation_counter, key, auth_key, challenge)
            log.append(("mac", bytes(system_title), invocation_counter))
            return out
        security.encrypt, security.gmac = enc, gm
        security._verif_original_gmac = orig_gmac
        try:
            return impl(oracle)
        finally:
            security.encrypt, security.gmac = orig_enc, orig_gmac
            del security._verif_original_gmac
    return lines, run


class C06(fw.Prop):
    id = "C06"
    anchors = ["dlms_cosem/connection.py", "dlms_cosem/security.py"]
    design_ref = "DESIGN.md §6 C06"
    rule = ("histories mixing association, the HLS exchange, GET/SET/ACTION with block transfers and release, 10..150 steps, from starting counters "
            "0, 1, 255, 2^32-200, 2^32-4, 2^32-1 (so the counter reaches 2^32); received counter sequences with duplicates, decreasing runs, the value equal to the last accepted and jumps to 2^32-1; "
            "every step compared with the model (counters, ghost logs implied by the outputs); in addition security.encrypt / security.gmac are wrapped "
            "inside the harness process and the property is evaluated on the implementation: nonces pairwise distinct, k-th use = start + k, accepted "
            "counters strictly increasing; the same AARQ/RLRQ object handed to send() again after a rejection / for a second association; the counter carried on the wire by the k-th protected item is start+k; the meter's side uses harness/refcrypto.py; a recorded rejecting AARE delivered on every later attempt; a DlmsClient whose transport fails after the request was written (no counter twice on the wire); a second association under another title with a lower / equal / higher counter, then the recorded first AARE again; non-trivial = distinct history")
    trusted_base = ["the symbolic-cryptography abstraction (DESIGN.md §5b)", "the nonce observer wraps dlms_cosem.security from inside the harness (no source hook)"]
    assumptions = ["'protected item' = a ciphered APDU or an HLS proof: both consume a counter (the two clauses of C06 cannot both hold literally in an HLS session; freshness is normative, DESIGN.md §6 C06)"]
    technique = "Lean 4 proof by induction over histories with the invariant 'the log of key uses is start, start+1, … under the client title' and 'accepted counters strictly increase'; differential correspondence + nonce observation on the implementation"
    level_text = ("C06_nonces_nodup / C06_kth_counter / C06_counter_in_apdu / C06_recv_strict / C06_replay_refused: theorems over histories of any length of the model of "
                  "encrypt / get_hls_reply / unprotect with a ghost log of key uses. Tied to connection.py by differential runs and by observing the nonces that reach "
                  "the real AES-GCM primitive.")
    level_note = "Trusted: Lean kernel (+propext, Classical.choice, Quot.sound), ideal-AEAD abstraction, extract.py, the harness."
    chunk = 2000

    def make_case(self, d):
        lines, run = run_with_nonce_log(d["cfg"], d["ops"])
        return fw.Case(lines, run, "split", d, tags=(d.get("tag", "x"),))

    def client_case(self, d):
        def impl():
            from dlms_cosem import cosem, enumerations as en, exceptions
            from dlms_cosem.clients.dlms_client import DlmsClient
            from dlms_cosem.connection import DlmsConnection
            from dlms_cosem.protocol import xdlms
            from harness import refcrypto
            from harness.connlib import conf_obj, key_bytes
            ek, ak = key_bytes(*EK), key_bytes(*AK)
            ct, mt = b"CLIENT01", bytes.fromhex(MT)
            wire = []

            class IO:
                """answers every request properly (ciphered under the meter's next counter), except that the `fail_at`-th write is
                followed by a timeout"""
                mic = 10

                def send(self, data):
                    wire.append(bytes(data))
                    if len(wire) == d["fail_at"]:
                        raise exceptions.CommunicationError("no answer")
                    g = xdlms.GeneralGlobalCipher.from_bytes(bytes(data))
                    plain = refcrypto.open_(g.security_control.to_bytes()[0], bytes(g.system_title), g.invocation_counter, ek, g.ciphered_text, ak)
                    tag = plain[0]
                    ans = {0xC0: b"\xc4\x01\xc1\x00\x09\x01\xaa", 0xC1: b"\xc5\x01\xc1\x00", 0xC3: b"\xc7\x01\xc1\x00\x00"}[tag]
                    IO.mic += 1
                    sc = 0x30
                    return xdlms.GeneralGlobalCipher(mt, g.security_control, IO.mic, refcrypto.seal(sc, mt, IO.mic, ek, ans, ak)).to_bytes()
            conn = DlmsConnection.with_pre_established_association(
                conformance=conf_obj(0x1F0B2), max_pdu_size=500, global_encryption_key=ek, global_authentication_key=ak, client_system_title=ct,
                meter_system_title=mt, client_invocation_counter=d["start"], meter_invocation_counter=0)
            c = DlmsClient(client_logical_address=16, server_logical_address=1, io_interface=IO(), dlms_connection=conn)
            attr_ = cosem.CosemAttribute(en.CosemInterface.REGISTER, cosem.Obis(1, 0, 1, 8, 0, 255), 2)
            meth = cosem.CosemMethod(en.CosemInterface.REGISTER, cosem.Obis(1, 0, 1, 8, 0, 255), 1)
            for _ in range(5):
                try:
                    if d["kind"] == "get":
                        c.get(attr_)
                    elif d["kind"] == "set":
                        c.set(attr_, b"\x11\x05")
                    else:
                        c.action(meth, b"\x11\x05")
                except fw._Timeout:
                    raise
                except Exception:  # noqa
                    pass
            carried = [xdlms.GeneralGlobalCipher.from_bytes(w).invocation_counter for w in wire if w[:1] == b"\xdb"]
            plain_out = [w.hex()[:20] for w in wire if w[:1] != b"\xdb"]
            if plain_out:
                return "ok client !written-unciphered:" + plain_out[0]
            want = [d["start"] + i for i in range(len(carried))]
            return "ok client" + ("" if carried == want else f" !counters-on-the-wire:{carried}")
        return fw.Case("echo client", impl, "prop", d, tags=("client-transport-failure",))

    def session_ops(self, rng, p, n, hls):
        ops = [["send", "aarq", 1], p.resp("aare", (0, 5 if hls else None))]
        if hls:
            ops += [["hls"], ["send", "actReq", 1], p.resp("actRespData", p.valid_proof(rng.randint(1, 1000)))]
        for _ in range(n):
            r = rng.random()
            if r < 0.3:
                ops += [["send", "getReq", 1], p.resp("getRespNormal")]
            elif r < 0.5:
                ops += [["send", "getReq", 1], p.resp("getRespBlock"), ["send", "getNext", 1], p.resp("getRespBlock"), ["send", "getNext", 1],
                        p.resp("getRespLastBlock")]
            elif r < 0.65:
                ops += [["send", "setReq", 1, rng.choice([1, 130, 300])], p.resp("setResp")]
            elif r < 0.8:
                ops += [["send", "actReq", 1], p.resp("actResp")]
            elif r < 0.84:
                # the meter answers with an exception-response that reports an invocation counter (lower / far higher than ours)
                ops += [["send", "getReq", 1], p.resp(rng.choice(["exceptionRespIc", "exceptionRespIcBig"]))]
            elif r < 0.87:
                ops += [["send", "getReq", 1], ["send", "getReq", 1], p.resp("getRespErr")]     # a refused send in between
            elif r < 0.93:
                ops += [["hls"]]                                                                # stray HLS reply (consumes a counter if allowed)
            else:
                ops += [["send", "rlrq", 1], p.resp("rlre"), ["send", "aarq", 1], p.resp("aare", (0, None))]
        return ops

    def cases(self, rng, tier, deep):
        for start in (0, 1, 255, 2 ** 32 - 200, 2 ** 32 - 4, 2 ** 32 - 1):
            for hls in (True, False):
                for rep in range(12 if deep else 2):
                    # (every third session with the dedicated-ciphering option: the library announces a dedicated key but all
                    #  protection still runs on the global key and its one counter)
                    cfg = cl.Cfg(ek=EK, ak=AK, auth=5 if hls else None, cic=start, dedicated=(rep + start) % 3)
                    p = Path("hls", cfg)
                    ops = self.session_ops(rng, p, rng.randint(3, 40 if deep else 12), hls)
                    yield self.make_case({"cfg": cfg.to_json(), "ops": ops, "tag": "session"})
        # the counter of the ciphered AARE counts: later APDUs with a counter up to it are replays
        for n, later in ((50, [50, 3, 51]), (1000, [1, 1000, 999, 1001]), (12, [12, 13, 13])):
            cfg = cl.Cfg(ek=EK, ak=AK, cic=5)
            p = Path("hls", cfg)
            p.mic = n - 1
            ops = [["send", "aarq", 1], p.resp("aare", (0, None))]
            for ic in later:
                ops.append(["send", "getReq", 1])
                ct = f"seal:{EK[0]}:{EK[1]}:{MT}:{ic}:{cfg.suite + 48}:{AK[0]}:{AK[1]}:s.getRespNormal"
                ops.append(["recv", ["ggc", MT, str(cfg.suite + 48), str(ic), ct], None])
            yield self.make_case({"cfg": cfg.to_json(), "ops": ops, "tag": "aare-counter"})
        # a meter that starts counting from 0: the first APDU with counter 0 may or may not be accepted (the remembered
        # counter starts at 0), but never twice; and a counter accepted once stays refused for ever after
        for seq in ([0, 0, 0, 1, 1, 0], [1, 0, 1, 2, 0]):
            cfg = cl.Cfg(ek=EK, ak=AK, pre=True, state="READY", meter_title=MT, cic=3, mic=0)
            ops = []
            for ic in seq:
                ops.append(["send", "getReq", 1])
                ct = f"seal:{EK[0]}:{EK[1]}:{MT}:{ic}:{cfg.suite + 48}:{AK[0]}:{AK[1]}:s.getRespNormal"
                ops.append(["recv", ["ggc", MT, str(cfg.suite + 48), str(ic), ct], None])
            yield self.make_case({"cfg": cfg.to_json(), "ops": ops, "tag": "counter-zero"})
        # every kind of answer raises the floor: each is delivered, then delivered again as the answer to the next request, then
        # another answer under the same counter, then one under the next counter
        for kind, req in (("exceptionResp", "getReq"), ("exceptionRespIc", "getReq"), ("getRespErr", "getReq"), ("getRespNormal", "getReq"),
                          ("setResp", "setReq"), ("actResp", "actReq"), ("actRespErr", "actReq"), ("dataNotif", None), ("getRespLastBlockErr", "getReq")):
            for ic in (7, 2 ** 31):
                cfg = cl.Cfg(ek=EK, ak=AK, pre=True, state="READY", meter_title=MT, cic=3, mic=0)
                seal = lambda k, c: ["recv", ["ggc", MT, str(cfg.suite + 48), str(c), f"seal:{EK[0]}:{EK[1]}:{MT}:{c}:{cfg.suite + 48}:{AK[0]}:{AK[1]}:s.{k}"], None]
                rq = [["send", req, 1]] if req else []
                ops = rq + [seal(kind, ic)] + rq + [seal(kind, ic)] + [["send", "getReq", 1], seal("getRespNormal", ic), ["send", "getReq", 1], seal("getRespNormal", ic + 1)]
                yield self.make_case({"cfg": cfg.to_json(), "ops": ops, "tag": "every-kind-twice"})
        # the replay floor survives a release: a second association on the same connection refuses the recorded APDUs
        # of the first one
        for n in (100, 7):
            cfg = cl.Cfg(ek=EK, ak=AK, cic=9)
            p = Path("hls", cfg)
            p.mic = n - 1
            first_aare = p.resp("aare", (0, None))
            first_get = p.resp("getRespNormal")
            ops = [["send", "aarq", 1], first_aare, ["send", "getReq", 1], first_get, ["send", "rlrq", 1], p.resp("rlre"),
                   ["send", "aarq", 1], first_aare, p.resp("aare", (0, None)), ["send", "getReq", 1], first_get, p.resp("getRespNormal")]
            yield self.make_case({"cfg": cfg.to_json(), "ops": ops, "tag": "replay-after-release"})
        # the same AARQ / RLRQ object handed to send() again (new attempt after a rejection, second association): every
        # protected APDU that leaves carries the next counter
        for start in (1000, 2 ** 32 - 10):
            for hls in (False, True):
                cfg = cl.Cfg(ek=EK, ak=AK, auth=5 if hls else None, cic=start)
                p = Path("hls", cfg)
                ops = [["send", "aarq", 1], p.resp("aare", (1, None)), ["send", "aarq", 4], p.resp("aare", (2, None)), ["send", "aarq", 4],
                       p.resp("aare", (0, None)), ["send", "getReq", 1], p.resp("getRespNormal"), ["send", "rlrq", 1], p.resp("rlre"),
                       ["send", "aarq", 4], p.resp("aare", (0, None)), ["send", "rlrq", 4], p.resp("rlre"), ["send", "aarq", 1]]
                yield self.make_case({"cfg": cfg.to_json(), "ops": ops, "tag": "acse-object-sent-again"})
        # a recorded AARE that rejects the association, delivered again on the next attempts: an APDU accepted once is never
        # accepted again, whatever it said
        for res in (1, 2):
            for hls in (False, True):
                cfg = cl.Cfg(ek=EK, ak=AK, auth=5 if hls else None, cic=rng.choice([3, 700]))
                p = Path("hls", cfg)
                p.mic = rng.choice([20, 5000])
                rej = p.resp("aare", (res, None))
                ops = [["send", "aarq", 1], rej, ["send", "aarq", 1], rej, ["send", "aarq", 1], rej, p.resp("aare", (res, None)), ["send", "aarq", 1], rej,
                       p.resp("aare", (0, None)), ["send", "getReq", 1], rej, p.resp("getRespNormal")]
                yield self.make_case({"cfg": cfg.to_json(), "ops": ops, "tag": "rejecting-aare-replayed"})
        # associations with a meter that names another title the second time (a replaced meter, or someone who says so): what was
        # accepted before stays the floor - the recorded first AARE is refused when it comes again
        for c1, c2 in ((50, 70), (50, 20), (1000, 1000)):
            cfg = cl.Cfg(ek=EK, ak=AK, cic=rng.choice([3, 90]))
            t2 = MT[:-2] + "5a"
            p = Path("hls", cfg)
            p.mic = c1 - 1
            first_aare = p.resp("aare", (0, None))
            ops = [["send", "aarq", 1], first_aare, ["send", "rlrq", 1]]
            ops.append(p.resp("rlre"))
            p.mic = max(c2 - 1, 0)
            second = p.resp("aare", (0, None))
            second[1][3] = t2
            second[1][5] = second[1][5].replace(MT, t2)
            ops += [["send", "aarq", 1], second, ["send", "rlrq", 1], ["recv", ["rlre", "absent"], None], ["send", "aarq", 1], first_aare, second,
                    ["send", "getReq", 1]]
            yield self.make_case({"cfg": cfg.to_json(), "ops": ops, "tag": "second-title"})
        # a client whose transport fails after the request was written (lost answer): whatever the client does next, no counter
        # is carried twice by what it writes
        for fail_at in (1, 2, 3):
            for op_kind in ("get", "set", "action"):
                yield self.client_case({"start": rng.choice([0, 1000, 2 ** 32 - 50]), "fail_at": fail_at, "kind": op_kind})
        # a recorded genuine APDU replayed with bits of its (unauthenticated) envelope changed: security-control byte with the
        # key-set / compression bit, another system title - still a replay
        for bits in (0x40, 0x80, 0xC0):
            cfg = cl.Cfg(ek=EK, ak=AK, pre=True, state="READY", meter_title=MT, cic=3, mic=1)
            ops = []
            for ic, env_sc, env_title in ((2, 48, MT), (2, 48 + bits, MT), (4, 48, MT), (4, 48 + bits, MT), (2, 48 + bits, MT), (4, 48, "5858580000000009")):
                ops.append(["send", "getReq", 1])
                ct = f"seal:{EK[0]}:{EK[1]}:{MT}:{ic}:48:{AK[0]}:{AK[1]}:s.getRespNormal"
                ops.append(["recv", ["ggc", env_title, str(env_sc), str(ic), ct], None])
            yield self.make_case({"cfg": cfg.to_json(), "ops": ops, "tag": "replay-envelope-bits"})
        # received counter orderings
        for rep in range(60 if deep else 10):
            cfg = cl.Cfg(ek=EK, ak=AK, pre=True, state="READY", meter_title=MT, cic=rng.choice([0, 5]), mic=rng.choice([0, 10, 1000]))
            seq = []
            cur = cfg.mic
            for _ in range(rng.randint(4, 25)):
                r = rng.random()
                if r < 0.45:
                    cur = min(2 ** 32 - 1, cur + rng.randint(1, 5))
                    seq.append(cur)
                elif r < 0.6:
                    seq.append(cur)                                     # equal to the last accepted
                elif r < 0.8:
                    seq.append(max(0, cur - rng.randint(1, 8)))         # decreasing
                elif r < 0.9:
                    seq.append(rng.choice(seq) if seq else cur)         # duplicate of any earlier one
                else:
                    cur = 2 ** 32 - 1 if rng.random() < 0.3 else min(2 ** 32 - 1, cur + rng.randint(100, 10 ** 6))
                    seq.append(cur)
            ops = []
            for ic in seq:
                ops.append(["send", "getReq", 1])
                ct = f"seal:{EK[0]}:{EK[1]}:{MT}:{ic}:{cfg.suite + 48}:{AK[0]}:{AK[1]}:s.getRespNormal"
                ops.append(["recv", ["ggc", MT, str(cfg.suite + 48), str(ic), ct], None])
            yield self.make_case({"cfg": cfg.to_json(), "ops": ops, "tag": "counter-orderings"})


PROP = C06()
