"""C13 - HDLC addresses use the 1/2/4-byte extended form and decode to the same address."""
from harness import framework as fw

BOUND = [0, 1, 63, 64, 126, 127, 128, 129, 255, 256, 8191, 16382, 16383]


def opt(x):
    return "none" if x is None else str(x)


class C13(fw.Prop):
    id = "C13"
    anchors = ["dlms_cosem/hdlc/address.py", "dlms_cosem/hdlc/validators.py"]
    design_ref = "DESIGN.md §6 C13"
    exhaustive = True
    rule = ("exhaustive singles: client 0..130, server logical 0..16385 without physical; pairs: all of "
            "{0,1,63,64,126,127,128,129,255,256,8191,16382,16383}^2 (+16384 and client-with-physical as refusals) plus random; "
            "every accepted address is then placed as destination and as source next to every boundary partner in a synthetic frame "
            "and located/decoded; random byte strings exercise the locator outside the property (model correspondence); "
            "frames from stations whose address bytes contain 0x7E delivered through a real HdlcConnection whole / byte by byte / in threes (UA, then an information frame); other spellings of the address type are refused or behave as the type they spell; every refusal is preceded by a parse that failed in the same process; RR frames through a connection from one-, two- and four-byte stations; whole sessions against the reactive meter of C18 (every written frame addressed correctly); non-trivial = distinct protocol line")
    trusted_base = ["Spec.Addr is my reading of IEC 62056-46 extended addressing",
                    "the correspondence harness (calls HdlcAddress(...).to_bytes / find_address_in_frame_bytes)"]
    assumptions = ["a server logical address above 127 without physical address and a client address with a physical part have no standard form and must be refused (DESIGN.md §6 C13)"]
    technique = "Lean 4 proof (arithmetic, omega; 16384-case kernel decision for the bit masks) of form and locate∘encode = id for any surrounding bytes + exhaustive differential correspondence on singles"
    level_text = ("C13_encode_eq_spec / C13_form / C13_locate_decode(_bytes): for every accepted address the model of to_bytes writes the standard 1/2/4-byte form, "
                  "and in any frame built with two accepted addresses, whatever precedes and follows, the model of find_address_in_frame_bytes returns the same logical "
                  "and physical values and lengths. The model is compared with the code on all single addresses and boundary pairs.")
    level_note = "Trusted: Lean kernel (+propext, Classical.choice, Quot.sound), Spec.Addr, the correspondence harness."

    def make_case(self, d):
        op = d["op"]
        if op == "enc":
            t, l, p = d["t"], d["l"], d["p"]

            def impl():
                from dlms_cosem.hdlc.address import HdlcAddress
                fw.prime_failed_parses()
                try:
                    a = HdlcAddress(l, p, "client" if t == "c" else "server")
                except ValueError:
                    return "err range"
                return "ok " + fw.hx(a.to_bytes())
            return fw.Case(f"addr enc {t} {l} {opt(p)}", impl, "prop", d, tags=("enc-" + t,))
        if op == "find":
            frame = bytes.fromhex(d["frame"])

            def impl():
                from dlms_cosem.hdlc.address import HdlcAddress
                (dl, dp, dn), (sl, sp, sn) = HdlcAddress.find_address_in_frame_bytes(frame)
                return f"ok {dl} {opt(dp)} {dn} {sl} {opt(sp)} {sn}"
            return fw.Case(f"addr find {frame.hex()}", impl, d.get("kind", "model"), d, tags=("find-" + d.get("kind", "model"),))
        if op == "inframe":
            # a frame of the given kind built by the library's frame classes: the two addresses are located and decoded
            # back, also when the frame object was first serialised for another station and then re-addressed, and when
            # the received bytes are a bytearray (what the connection hands to the decoders)
            from harness.props.c18 import crc_x25

            def enc_frame(dest, src, ctrl, info):
                # (the kinds that can carry information - UA, I - always have a header check sequence in this library, C09)
                hcs = kind in ("ua", "i")
                n = 2 + len(dest) + len(src) + 1 + (2 if hcs else 0) + len(info) + 2
                head = (0xA000 | n).to_bytes(2, "big") + dest + src + bytes([ctrl])
                body = head + (crc_x25(head) if hcs else b"") + info
                return b"\x7e" + body + crc_x25(body) + b"\x7e"
            kind, dst, src, odst, osrc = d["kind"], tuple(d["dst"]), tuple(d["src"]), tuple(d["odst"]), tuple(d["osrc"])
            ctrl = {"snrm": 0x93, "disc": 0x53, "ua": 0x73, "rr": 0x71, "i": 0x54}[kind]
            info = b"\xe6\xe7\x00\x01" if kind == "i" else b""
            wire = enc_frame(self.spec_bytes(*dst), self.spec_bytes(*src), ctrl, info)

            def impl():
                from dlms_cosem.hdlc import frames
                from dlms_cosem.hdlc.address import HdlcAddress

                def addr(a):
                    return HdlcAddress(a[1], a[2], "client" if a[0] == "c" else "server")
                cls = {"snrm": frames.SetNormalResponseModeFrame, "disc": frames.DisconnectFrame, "ua": frames.UnNumberedAcknowledgmentFrame,
                       "rr": frames.ReceiveReadyFrame, "i": frames.InformationFrame}[kind]
                kw = {"payload": info} if kind == "i" else {}
                if kind == "i":
                    kw.update(send_sequence_number=2, receive_sequence_number=2)
                if kind == "rr":
                    kw.update(receive_sequence_number=3)
                f = cls(addr(odst), addr(osrc), **kw)
                f.to_bytes()
                f.destination_address, f.source_address = addr(dst), addr(src)
                out = bytes(f.to_bytes())
                note = "" if out == wire else " !frame-bytes-differ:" + out.hex()
                (dl, dp, dn), (sl, sp, sn) = HdlcAddress.find_address_in_frame_bytes(bytearray(out))
                if kind not in ("snrm",):
                    back = cls.from_bytes(bytearray(wire))
                    got = (back.destination_address.logical_address, back.destination_address.physical_address,
                           back.source_address.logical_address, back.source_address.physical_address)
                    if got != (dst[1], dst[2], src[1], src[2]):
                        note += f" !from_bytes-addresses:{got}"
                return f"ok {dl} {opt(dp)} {dn} {sl} {opt(sp)} {sn}" + note
            return fw.Case(f"addr find {wire.hex()}", impl, "prop", d, tags=("inframe-" + kind,))
        if op == "viaconn":
            # the meter's frame (UA answering SNRM, then an information frame) arrives at a real HdlcConnection, whole or byte by
            # byte; the frame the connection delivers names the same two stations.  (An address byte can equal the flag 0x7E.)
            from harness.props.c18 import crc_x25
            srv, cl, step = tuple(d["srv"]), tuple(d["cl"]), d["step"]
            sb, cb = self.spec_bytes(*srv), self.spec_bytes(*cl)

            def wire_of(ctrl, info):
                n = 2 + len(cb) + len(sb) + 1 + 2 + len(info) + 2
                head = (0xA000 | n).to_bytes(2, "big") + cb + sb + bytes([ctrl])
                body = head + crc_x25(head) + info
                return b"\x7e" + body + crc_x25(body) + b"\x7e"
            ua, iframe = wire_of(0x73, b""), wire_of(0x30, b"\xe6\xe7\x00\xc4\x01")
            n_rr = 2 + len(cb) + len(sb) + 1 + 2
            rr_head = (0xA000 | n_rr).to_bytes(2, "big") + cb + sb + bytes([0x51])
            rr = b"\x7e" + rr_head + crc_x25(rr_head) + b"\x7e"        # RR acknowledging the client's second (segmented) frame

            def impl():
                from dlms_cosem.hdlc import frames, state as hstate
                from dlms_cosem.hdlc.address import HdlcAddress
                from dlms_cosem.hdlc.connection import HdlcConnection
                server, client = HdlcAddress(srv[1], srv[2], "server"), HdlcAddress(cl[1], None, "client")
                conn = HdlcConnection(server, client)

                def deliver(data):
                    got = None
                    pieces = [data] if step == 0 else [data[i:i + step] for i in range(0, len(data), step)]
                    for piece in pieces:
                        conn.receive_data(piece)
                        for _ in range(len(data) + 2):
                            ev = conn.next_event()
                            if ev is not hstate.NEED_DATA:
                                got = ev
                                break
                            if conn.buffer.find(b"\x7e", conn.buffer_search_position) < 0:
                                break
                        if got is not None:
                            break
                    return got
                out = []
                conn.send(frames.SetNormalResponseModeFrame(server, client))
                f1 = deliver(ua)
                if f1 is not None:
                    conn.send(frames.InformationFrame(server, client, b"\xe6\xe6\x00\xc0\x01", send_sequence_number=0, receive_sequence_number=0))
                f2 = deliver(iframe) if f1 is not None else None
                f3 = None
                if f2 is not None:
                    conn.send(frames.InformationFrame(server, client, b"\xe6\xe6\x00" + bytes(20), send_sequence_number=1, receive_sequence_number=1,
                                                      segmented=True))
                    f3 = deliver(rr)
                for f in (f1, f2, f3):
                    if f is None:
                        return "ok never-delivered"
                    dd, ss = f.destination_address, f.source_address
                    out.append(f"{dd.logical_address} {opt(dd.physical_address)} {len(dd.to_bytes())} {ss.logical_address} {opt(ss.physical_address)} {len(ss.to_bytes())}")
                if out[0] != out[1]:
                    return "ok " + out[0] + " !information-frame-names:" + out[1]
                if out[0] != out[2]:
                    return "ok " + out[0] + " !receive-ready-frame-names:" + out[2]
                return "ok " + out[0]
            return fw.Case(f"addr find {ua.hex()}", impl, "prop", d, tags=("via-connection",))
        if op == "typename":
            # other spellings of the address type: refused, or - if the library takes them - the address is the client / server
            # address it says, in the standard form
            t, l, p, spelled = d["t"], d["l"], d["p"], d["spelled"]
            want = self.spec_bytes(t, l, p)

            def impl():
                from dlms_cosem.hdlc.address import HdlcAddress
                try:
                    a = HdlcAddress(l, p, spelled)
                    out = a.to_bytes()
                except ValueError:
                    return "ok typename"
                if want is None:
                    return f"ok typename !accepted-an-address-without-standard-form:{spelled}:{l}:{p}:{bytes(out).hex()}"
                if bytes(out) != want:
                    return f"ok typename !written-as:{bytes(out).hex()}"
                return "ok typename"
            return fw.Case("echo typename", impl, "prop", d, tags=("type-spelling",))
        if op == "client":
            # the addresses as they leave a client built with DlmsClient.with_serial_hdlc_transport (serial port faked):
            # the SNRM it writes carries the configured server and client addresses
            cl, sl, sp = d["client"], d["sl"], d["sp"]
            from harness.props.c18 import crc_x25
            dest, src = self.spec_bytes("s", sl, sp), self.spec_bytes("c", cl, None)
            head = (0xA000 | (2 + len(dest) + len(src) + 1 + 2)).to_bytes(2, "big") + dest + src + b"\x93"
            wire = b"\x7e" + head + crc_x25(head) + b"\x7e"

            def impl():
                import serial
                from dlms_cosem.clients.dlms_client import DlmsClient
                written = []

                class FakePort:
                    def __init__(self, *a, **k):
                        pass

                    def write(self, b):
                        written.append(bytes(b))
                        return len(b)

                    def read_until(self, *a, **k):
                        raise fw.MachineryError("stop after the first frame")
                real = serial.Serial
                serial.Serial = FakePort
                try:
                    c = DlmsClient.with_serial_hdlc_transport(serial_port="x", client_logical_address=cl, server_logical_address=sl,
                                                             server_physical_address=sp)
                    try:
                        c.connect()
                    except fw.MachineryError:
                        pass
                finally:
                    serial.Serial = real
                from dlms_cosem.hdlc.address import HdlcAddress
                out = b"".join(written)
                (dl, dp, dn), (sl_, sp_, sn) = HdlcAddress.find_address_in_frame_bytes(out)
                return f"ok {dl} {opt(dp)} {dn} {sl_} {opt(sp_)} {sn}" + ("" if out == wire else " !frame-bytes-differ:" + out.hex())
            return fw.Case(f"addr find {wire.hex()}", impl, "prop", d, tags=("client-constructor",))
        raise fw.MachineryError(op)

    @staticmethod
    def spec_bytes(t, l, p):
        if t == "c":
            return bytes([2 * l + 1]) if (l < 128 and p is None) else None
        if p is None:
            return bytes([2 * l + 1]) if l < 128 else None
        if l >= 16384 or p >= 16384:
            return None
        if l < 128 and p < 128:
            return bytes([2 * l, 2 * p + 1])
        return bytes([2 * (l // 128), 2 * (l % 128), 2 * (p // 128), 2 * (p % 128) + 1])

    def cases(self, rng, tier, deep):
        mk = self.make_case
        for l in range(0, 131):
            yield mk({"op": "enc", "t": "c", "l": l, "p": None})
        for l in (range(0, 16386) if deep else list(range(0, 300)) + list(range(16000, 16386)) + [rng.randrange(16384) for _ in range(1500)]):
            yield mk({"op": "enc", "t": "s", "l": l, "p": None})
        pairs = [(a, b) for a in BOUND + [16384] for b in BOUND + [16384]]
        pairs += [(rng.randrange(16384), rng.randrange(16384)) for _ in range(20000 if deep else 1500)]
        for l, p in pairs:
            yield mk({"op": "enc", "t": "s", "l": l, "p": p})
        for l, p in [(1, 0), (1, 5), (127, 127)]:
            yield mk({"op": "enc", "t": "c", "l": l, "p": p})
        # locate + decode in synthetic frames: every accepted shape as destination and as source
        addrs = [("c", a, None) for a in (0, 1, 16, 64, 127)] + [("s", a, None) for a in (0, 1, 64, 127)]
        addrs += [("s", a, b) for a in BOUND for b in BOUND]
        addrs += [("s", rng.randrange(16384), rng.randrange(16384)) for _ in range(2000 if deep else 150)]
        partners = [("c", 16, None), ("s", 1, None), ("s", 1, 17), ("s", 0, 0), ("s", 200, 5), ("s", 16383, 16383)]
        for a in addrs:
            ab = self.spec_bytes(*a)
            for b in partners:
                bb = self.spec_bytes(*b)
                tail = bytes(rng.getrandbits(8) for _ in range(rng.randint(0, 6)))
                for x, y in ((ab, bb), (bb, ab)):
                    frame = b"\x7e" + bytes([0xA0 | rng.getrandbits(4), rng.getrandbits(8)]) + x + y + tail
                    yield mk({"op": "find", "frame": frame.hex(), "kind": "prop"})
        # the same through the frame classes, every kind, re-addressed objects, bytearray input
        servers = [("s", 1, None), ("s", 1, 17), ("s", 0, 0), ("s", 127, 127), ("s", 200, 5), ("s", 5, 200), ("s", 1, 128), ("s", 128, 1),
                   ("s", 16383, 16383), ("s", 300, 5000), ("s", 1, 0), ("s", 200, 0)]
        servers += [("s", rng.randrange(16384), rng.randrange(16384)) for _ in range(200 if deep else 20)]
        for kind in ("snrm", "disc", "ua", "rr", "i"):
            to_meter = kind in ("snrm", "disc")
            for srv in servers:
                cl = ("c", rng.choice([1, 16, 127]), None)
                other_srv, other_cl = rng.choice(servers), ("c", rng.choice([0, 2, 100]), None)
                dst, src = (srv, cl) if to_meter else (cl, srv)
                odst, osrc = (other_srv, other_cl) if to_meter else (other_cl, other_srv)
                yield mk({"op": "inframe", "kind": kind, "dst": dst, "src": src, "odst": odst, "osrc": osrc})
        # through a real connection (whole and byte by byte), with stations whose address bytes contain 0x7E
        flaggy = [("s", 63, 17), ("s", 63, 0), ("s", 63, 127), ("s", 8064, 300), ("s", 8100, 5), ("s", 191, 1), ("s", 200, 8064), ("s", 5, 8191),
                  ("s", 8127, 8127), ("s", 63, None), ("s", 16383, 8063 + 128)]
        for srv in flaggy + servers:
            for step in (0, 1, 3):
                yield mk({"op": "viaconn", "srv": srv, "cl": ("c", rng.choice([1, 16, 63, 127]), None), "step": step})
        for srv in flaggy:
            for kind in ("snrm", "disc", "ua", "rr", "i"):
                cl = ("c", rng.choice([1, 16, 63]), None)
                dst, src = (srv, cl) if kind in ("snrm", "disc") else (cl, srv)
                yield mk({"op": "inframe", "kind": kind, "dst": dst, "src": src, "odst": dst, "osrc": src})
        for spelled, t in (("Server", "s"), ("SERVER", "s"), ("Client", "c"), ("CLIENT", "c"), (" server", "s"), ("server ", "s"), ("cLIENT", "c")):
            for l, p in ((1, 17), (100, None), (200, None), (128, None), (16383, None), (200, 5), (127, None), (128, 0), (16, None), (0, None), (16384, 1)):
                if t == "c" and p is not None:
                    continue
                yield mk({"op": "typename", "t": t, "l": l, "p": p, "spelled": spelled})
        # every frame a client writes during a session (SNRM, information frames of a segmented request, RR for the segments of
        # the answer, DISC) is addressed to its server from itself: whole sessions against the reactive meter of C18, which counts a
        # frame with other addresses as a violation
        from harness.props import c18
        for server, client in (([1, 17], 16), ([1, None], 1), ([200, 5], 16), ([5, 200], 17), ([16383, 16383], 127), ([63, 17], 16), ([1, 0], 1)):
            d18 = {"maxData": 128, "maxInfo": 128, "vs": 0, "vr": 0, "gran": rng.choice(["whole", "bytewise", "random"]), "gseed": rng.randrange(10 ** 6),
                   "server": server, "client": client,
                   "ops": [["connect"]] + c18.PROP.exchange(rng, 300, 3, 300) + c18.PROP.exchange(rng, 10, 2, 5) + [["disconnect"]], "tag": "session-addresses"}
            yield c18.PROP.make_case(d18)
        for cl, sl, sp in ((16, 1, 17), (1, 1, None), (16, 1, 0), (127, 127, 127), (16, 200, 5), (16, 5, 200), (16, 16383, 16383)):
            yield mk({"op": "client", "client": cl, "sl": sl, "sp": sp})
        for _ in range(20000 if deep else 1500):
            n = rng.randint(0, 14)
            frame = b"\x7e\xa0" + bytes(rng.getrandbits(8) & (0xFE if rng.random() < 0.5 else 0xFF) for _ in range(n))
            yield mk({"op": "find", "frame": frame.hex(), "kind": "model"})


PROP = C13()
