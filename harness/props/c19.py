"""C19 - client GET returns exact data for every block split; errors never pass as data."""
from harness import framework as fw
from harness import refcrypto

MT = bytes.fromhex("4d4d4d0000000001")
CT = bytes.fromhex("0102030405060708")
EK = bytes(range(16))
AK = bytes(range(16, 32))
INV0 = 0xC1      # InvokeIdAndPriority() of the requests the client builds itself
REQ_INV = {"get": 0xC1, "set": 0xC1, "act": 0xC0, "assoc": 0xC0}     # defaults of the request classes (a parameter of the model)
DAR = [1, 2, 3, 4, 9, 11, 12, 13, 14, 15, 16, 17, 18, 19, 250]
ARS = [1, 2, 3, 4, 9, 11, 12, 13, 14, 15, 16, 250]


def hx(b):
    return b.hex() if b else "-"


def pattern(n, seed):
    """n bytes incl. 0x7e flags, zeros and tag-like values."""
    return bytes((seed * 37 + i * 101 + (0x7E if i % 17 == 3 else 0) + (i >> 8)) % 256 for i in range(n))


class ScriptedIO:
    """`io_interface`: answers every request with the next scripted APDU (protected when the client is)."""

    def __init__(self, runner):
        self.r = runner
        self.script = []
        self.sent = []

    def connect(self):
        pass

    def disconnect(self):
        pass

    def send(self, data):
        self.sent.append(self.r.describe_request(bytes(data)))
        if not self.script:
            return b""
        return self.r.answer_bytes(self.script.pop(0))


class Runner:
    def __init__(self, ciphered, state, pre=False):
        from dlms_cosem.clients.dlms_client import DlmsClient
        from dlms_cosem import enumerations as en
        self.ciphered = ciphered
        self.io = ScriptedIO(self)
        kw = {}
        if ciphered:
            kw = dict(encryption_key=EK, authentication_key=AK, client_system_title=CT,
                      authentication_method=en.AuthenticationMechanism.HLS_GMAC)
        if pre:
            # a client on a pre-established association (no AARQ/AARE): everything else works as on a negotiated one
            from dlms_cosem.connection import DlmsConnection
            from harness.connlib import conf_obj
            kw = dict(dlms_connection=DlmsConnection.with_pre_established_association(
                conformance=conf_obj(0x1F0B2), max_pdu_size=500, global_encryption_key=EK if ciphered else None,
                global_authentication_key=AK if ciphered else None, client_system_title=CT if ciphered else None,
                meter_system_title=MT if ciphered else None, client_invocation_counter=0, meter_invocation_counter=0))
        self.client = DlmsClient(client_logical_address=16, server_logical_address=1, io_interface=self.io, **kw)
        self.conn = self.client.dlms_connection
        from dlms_cosem import state as st
        if not pre:
            self.conn.state.current_state = getattr(st, state)
        if ciphered and state != "NO_ASSOCIATION":
            self.conn.meter_system_title = MT
        self.mic = 100

    # ---- what the client handed to the transport
    def describe_request(self, wire):
        from dlms_cosem import security
        from dlms_cosem.protocol import xdlms
        if wire[:1] == b"\xdb":
            g = xdlms.GeneralGlobalCipher.from_bytes(wire)
            wire = bytes(refcrypto.open_(g.security_control.to_bytes()[0], g.system_title, g.invocation_counter, EK, g.ciphered_text, AK))
        t = wire[0]
        if t == 0x60:
            return "aarq"
        if t == 0x62:
            return "rlrq"
        if t == 0xC0 and wire[1] == 1:
            return f"get:{wire[2]}"
        if t == 0xC0 and wire[1] == 2:
            return f"next:{wire[2]}:{int.from_bytes(wire[3:7], 'big')}"
        if t == 0xC1:
            return f"set:{wire[2]}"
        if t == 0xC3:
            return f"act:{wire[2]}"
        return "?" + wire[:2].hex()

    # ---- the meter's answer for a script token
    def protect(self, plain):
        from dlms_cosem import security
        from dlms_cosem.protocol import xdlms
        if not self.ciphered:
            return plain
        self.mic += 1
        sc = self.conn.security_control
        ct = refcrypto.seal(sc.to_bytes()[0], MT, self.mic, EK, plain, AK)
        # (a meter may leave the system-title field of its ciphered APDUs empty: the title is the one it named in the AARE; the
        #  envelope's title is not authenticated either way)
        env_title = {None: MT, "empty": b"", "other": b"OTHER123"}[getattr(self, "env_title", None)]
        return xdlms.GeneralGlobalCipher(system_title=env_title, security_control=sc, invocation_counter=self.mic, ciphered_text=ct).to_bytes()

    def answer_bytes(self, tok):
        from dlms_cosem import enumerations as en, security
        from dlms_cosem.protocol import acse, xdlms
        from dlms_cosem.protocol.xdlms.invoke_id_and_priority import InvokeIdAndPriority as IIP
        from dlms_cosem.protocol.xdlms.data_notification import LongInvokeIdAndPriority
        f = tok.split(":")
        k = f[0]

        def iip(x):
            return IIP.from_bytes(bytes([int(x)]))

        def data(h):
            return b"" if h == "-" else bytes.fromhex(h)
        if k == "gn":
            o = xdlms.GetResponseNormal(data(f[2]), iip(f[1]))
        elif k == "ge":
            o = xdlms.GetResponseNormalWithError(en.DataAccessResult(int(f[2])), iip(f[1]))
        elif k == "gb":
            o = xdlms.GetResponseWithBlock(data(f[3]), int(f[2]), iip(f[1]))
        elif k in ("gl", "glF"):
            o = xdlms.GetResponseLastBlock(data(f[3]), int(f[2]), iip(f[1]))
        elif k in ("gle", "gleF"):
            o = xdlms.GetResponseLastBlockWithError(en.DataAccessResult(int(f[3])), int(f[2]), iip(f[1]))
        elif k == "sr":
            o = xdlms.SetResponseNormal(en.DataAccessResult(int(f[2])), iip(f[1]))
        elif k == "ar":
            o = xdlms.ActionResponseNormal(en.ActionResultStatus(int(f[2])), iip(f[1]))
        elif k == "ard":
            d = data(f[3])
            if f[4] in ("valid", "invalid") and self.conn.state.current_state.__class__.__name__ and f[3] == "hls":
                pass
            if f[3] == "-" and f[4] == "valid":
                # the proof a holder of both keys computes over the client's challenge under the meter's nonce
                sc = security.SecurityControlField(self.conn.security_suite, authenticated=True, encrypted=False)
                ic = self.mic + 1000
                body = sc.to_bytes() + ic.to_bytes(4, "big") + refcrypto.gmac(sc.to_bytes()[0], MT, ic, EK, AK, self.conn.client_to_meter_challenge)
                d = b"\x09" + bytes([len(body)]) + body
            o = xdlms.ActionResponseNormalWithData(en.ActionResultStatus(int(f[2])), d, iip(f[1]))
        elif k == "are":
            o = xdlms.ActionResponseNormalWithError(en.ActionResultStatus(int(f[2])), en.DataAccessResult(int(f[3])), iip(f[1]))
        elif k == "ex":
            o = xdlms.ExceptionResponse(en.StateException(int(f[1])), en.ServiceException(int(f[2])))
        elif k == "dn":
            o = xdlms.DataNotification(LongInvokeIdAndPriority(7), None, b"\x09\x01\x01")
        elif k == "undec":
            return b"\xc4\x07\x01\x02"
        elif k == "rlre":
            ui = None
            if self.ciphered:
                ui = acse.UserInformation(self.glo_initiate_response())
            return acse.ReleaseResponse(reason=en.ReleaseResponseReason.NORMAL, user_information=ui).to_bytes()
        elif k == "aare":
            from harness.connlib import conf_obj
            res = en.AssociationResult(int(f[1]))
            hls = f[2] == "1"
            pdu = int(f[3]) if len(f) > 3 else 500
            content = self.glo_initiate_response(pdu) if self.ciphered else xdlms.InitiateResponse(conf_obj(0x1F0B2), pdu)
            return acse.ApplicationAssociationResponse(
                res, en.AcseServiceUserDiagnostics.NULL if int(f[1]) == 0 else en.AcseServiceUserDiagnostics.AUTHENTICATION_FAILED,
                authentication=en.AuthenticationMechanism.HLS_GMAC if hls else None,
                system_title=MT if (hls or self.ciphered) else None,
                authentication_value=bytes.fromhex("c1c2c3c4c5c6c7c8") if hls else None,
                user_information=acse.UserInformation(content)).to_bytes()
        else:
            raise fw.MachineryError("answer token " + tok)
        plain = bytearray(o.to_bytes())
        if k in ("glF", "gleF"):
            assert plain[3] == 1
            plain[3] = 0xFF            # A-XDR BOOLEAN TRUE: any non-zero octet
        return self.protect(bytes(plain))

    def glo_initiate_response(self, pdu=500):
        from dlms_cosem import security
        from dlms_cosem.protocol import xdlms
        from harness.connlib import conf_obj
        self.mic += 1
        sc = self.conn.security_control
        ct = refcrypto.seal(sc.to_bytes()[0], MT, self.mic, EK, xdlms.InitiateResponse(conf_obj(0x1F0B2), pdu).to_bytes(), AK)
        return xdlms.GlobalCipherInitiateResponse(sc, self.mic, ct)

    # ---- one operation
    def op(self, name, script):
        from dlms_cosem import cosem, enumerations as en
        from dlms_cosem.protocol import xdlms
        attr = cosem.CosemAttribute(en.CosemInterface.REGISTER, cosem.Obis(1, 0, 1, 8, 0, 255), 2)
        meth = cosem.CosemMethod(en.CosemInterface.REGISTER, cosem.Obis(1, 0, 1, 8, 0, 255), 1)
        self.io.script = list(script)
        self.io.sent = []
        c = self.client
        try:
            if name == "get":
                r = c.get(attr)
                left, out = "data " + hx(r), "ok " + hx(r)
            elif name == "set":
                r = c.set(attr, b"\x09\x02\x01\x02")
                if isinstance(r, xdlms.SetResponseNormal):
                    left, out = f"result {int(r.result)}", f"ok result {int(r.result)}"
                else:
                    left, out = "returned-other", "ok " + type(r).__name__
            elif name == "act":
                r = c.action(meth, b"\x09\x02\x01\x02")
                left, out = ("nothing", "ok none") if r is None else ("data " + hx(r), "ok " + hx(r))
            elif name == "assoc":
                r = c.associate()
                left, out = "accepted", "ok " + type(r).__name__
            elif name == "release":
                r = c.release_association()
                left, out = "na", "ok " + type(r).__name__
            else:
                raise fw.MachineryError(name)
        except fw._Timeout:
            raise
        except Exception as e:  # noqa
            left, out = "raise", "err " + fw.classify_exception(e)
        pending = len(self.io.script) + (1 if self.conn.buffer else 0)
        return f"{left} | {out} | st={self.conn.state.current_state} left={pending} sent={','.join(self.io.sent)}"


def base_tok(t):
    f = t.split(":")
    if f[0] == "glF":
        f[0] = "gl"
    if f[0] == "gleF":
        f[0] = "gle"
    if f[0] == "aare":
        f = f[:3]
    return ":".join(f)


def run_session(d):
    lines = [f"cli init {d['state']}"]
    for name, script in d["ops"]:
        if name == "release":
            lines.append("cli release " + " ".join(map(base_tok, script)))
        else:
            lines.append(f"cli {name} {REQ_INV[name]} " + " ".join(map(base_tok, script)))

    def impl():
        r = Runner(d["ciphered"], d["state"], pre=bool(d.get("pre")))
        r.mic = d.get("mic0", 100)                 # where the meter's invocation counter stands
        r.env_title = d.get("env_title")
        out = ["ok"]
        for name, script in d["ops"]:
            out.append(r.op(name, script))
        if d.get("second_client"):
            # a second client created while the first one is still alive starts unassociated and has its own association:
            # clients do not share protocol state
            from dlms_cosem.clients.dlms_client import DlmsClient
            other = DlmsClient(client_logical_address=16, server_logical_address=1, io_interface=ScriptedIO(r))
            st2 = str(other.dlms_connection.state.current_state)
            if other.dlms_connection.state is r.conn.state or st2 != "NO_ASSOCIATION":
                out[-1] += f" !PROP C19 a second client starts in {st2} / shares the first one's state machine"
        return out
    return [l.strip() for l in lines], impl


class C19(fw.Prop):
    id = "C19"
    anchors = ["dlms_cosem/clients/dlms_client.py", "dlms_cosem/connection.py", "dlms_cosem/state.py", "dlms_cosem/protocol/xdlms/get.py"]
    design_ref = "DESIGN.md §6 C19"
    rule = ("the real DlmsClient over a scripted io_interface, plain and with real AES-GCM ciphering of every answer: GET answered by one normal response "
            "(data lengths 0, 1, 127, 128, 255, 256, 65535, 65536, 100000 and random) or by 2..200 blocks of any sizes incl. empty blocks, arbitrary block "
            "numbers and invoke ids; every error code immediately, after k blocks and as last-block error at every position; answers of every other kind "
            "at every position (exception response, data notification, SET/ACTION answers, undecodable bytes, nothing); SET with every result code; ACTION "
            "with/without data, every status, error answers; associate accepted / rejected permanent / transient / exception / HLS with valid, invalid, "
            "unparsable proof and non-success status; sessions of up to 60 operations on one association; left part = what C19 demands for the answers "
            "(Spec.Client), rest = the model's outcome, state, unconsumed answers and the decoded requests handed to the transport; ciphered sessions in which the meter's counter is at 2^31-4, 2^31, 0xC0000000, 2^32-5000; the meter's side uses harness/refcrypto.py; meters that leave the envelope title empty; ciphered clients built through both alternative constructors; non-trivial = distinct session")
    trusted_base = ["extract.py (transition table)", "Spec.Client is my reading of C19's demands",
                    "protection is transparent in Model.Client (C04/C06/C07 are about it); the harness plays the meter with real AES-GCM"]
    assumptions = ["with ciphering, answers to the AARQ other than an AARE are outside the model (no meter title yet: the protection layer refuses them)",
                   "an 'invalid' HLS proof is an octet string whose first byte is a well-formed security-control byte; 'unparsable' is data that is no octet string",
                   "the meter echoes the invoke id of the request: the acknowledgement carries the invoke id of the block it acknowledges",
                   "error codes are those of the DataAccessResult / ActionResultStatus enumerations"]
    technique = "Lean 4 proof by induction over the block list and over sessions: the model of DlmsClient.get/set/action/associate over the regenerated transition table returns exactly the concatenation / raises, and data is returned only from data answers (inversion); differential correspondence of outcome, state and decoded requests with the real client over a scripted transport"
    level_text = ("C19_get_normal / C19_get_blocks / C19_acks_carry_original_invoke_id / C19_get_error / C19_get_blocks_error / C19_get_data_only_from_data / "
                  "C19_get_meets_demand / C19_set_result / C19_action_result / C19_associate / C19_session: theorems over block lists, scripts and sessions of any length "
                  "of the model of dlms_client.py with the transition table regenerated from state.py. Tied to the code by differential sessions against the real client.")
    level_note = "Trusted: Lean kernel (+propext, Classical.choice, Quot.sound), extract.py, Spec.Client, the harness (scripted transport, real AES-GCM)."
    chunk = 400

    def make_case(self, d):
        lines, impl = run_session(d)
        return fw.Case(lines, impl, "split", d, tags=(d.get("tag", "x"), "ciphered" if d["ciphered"] else "plain"))

    def ctor_case(self, d):
        """a ciphered client built through with_tcp_transport / with_serial_hdlc_transport / directly: GET against a meter whose
        counters start right above the configured meter counter returns the data (the connection holds the configured values)."""
        def impl():
            import serial
            from dlms_cosem import cosem, enumerations as en
            from dlms_cosem.clients.dlms_client import DlmsClient
            from dlms_cosem.protocol import xdlms
            klen = 32 if d["suite"] == 2 else 16
            ek, ak = bytes(range(klen)), bytes(range(100, 100 + klen))
            kw = dict(client_logical_address=16, server_logical_address=1, encryption_key=ek, authentication_key=ak, security_suite=d["suite"],
                      client_system_title=CT, client_initial_invocation_counter=d["cic"], meter_initial_invocation_counter=d["mic"])
            real = serial.Serial
            serial.Serial = lambda *a, **k: None
            try:
                if d["via"] == "tcp":
                    c = DlmsClient.with_tcp_transport(host="localhost", port=4059, **kw)
                elif d["via"] == "serial":
                    c = DlmsClient.with_serial_hdlc_transport(serial_port="x", server_physical_address=17, **kw)
                else:
                    c = DlmsClient(io_interface=None, **kw)
            finally:
                serial.Serial = real
            conn = c.dlms_connection
            problems = []
            if (conn.client_invocation_counter, conn.meter_invocation_counter) != (d["cic"], d["mic"]):
                problems.append(f"counters:{conn.client_invocation_counter}/{conn.meter_invocation_counter}")
            if (conn.global_encryption_key, conn.global_authentication_key, conn.security_suite, conn.client_system_title) != (ek, ak, d["suite"], CT):
                problems.append("keys-suite-title")
            # one exchange on a (forced) established association with the meter's counter just above the configured one
            from dlms_cosem import state as st
            conn.state.current_state = st.READY
            conn.meter_system_title = MT
            sent = []

            class IO:
                def send(self_, data):
                    sent.append(bytes(data))
                    sc = 0x30 + d["suite"]
                    ic = d["mic"] + 1
                    plain = b"\xc4\x01\xc1\x00\x09\x02\xab\xcd"
                    return xdlms.GeneralGlobalCipher(MT, conn.security_control, ic, refcrypto.seal(sc, MT, ic, ek, plain, ak)).to_bytes()
            c.io_interface = IO()
            try:
                got = c.get(cosem.CosemAttribute(en.CosemInterface.REGISTER, cosem.Obis(1, 0, 1, 8, 0, 255), 2))
                if bytes(got) != b"\x09\x02\xab\xcd":
                    problems.append("get-returned:" + bytes(got).hex())
            except fw._Timeout:
                raise
            except Exception as e:  # noqa
                problems.append("get-raised:" + type(e).__name__)
            if sent:
                g = xdlms.GeneralGlobalCipher.from_bytes(sent[0])
                if g.invocation_counter != d["cic"] or bytes(g.system_title) != CT:
                    problems.append(f"request-carries:{g.invocation_counter}/{bytes(g.system_title).hex()}")
            return "ok ctor" + ("" if not problems else " " + ",".join(problems))
        return fw.Case("echo ctor", impl, "prop", d, tags=("constructor-" + d["via"],))

    # ---- generators
    def inv(self, rng, echo=True):
        if echo or rng.random() < 0.7:
            return INV0
        return rng.choice([0x40, 0x81, 0xC0, 0xCF, 0x0F, 0xC7])

    def split(self, rng, data, nblocks):
        cuts = sorted(rng.randint(0, len(data)) for _ in range(nblocks - 1))
        if rng.random() < 0.3 and nblocks > 2:
            cuts[rng.randrange(len(cuts))] = cuts[0]          # force empty blocks
            cuts.sort()
        parts, prev = [], 0
        for c in cuts + [len(data)]:
            parts.append(data[prev:c])
            prev = c
        return parts

    def blocks_script(self, rng, data, nblocks, echo=True, numbering="seq"):
        parts = self.split(rng, data, nblocks)
        toks = []
        for i, p in enumerate(parts):
            no = i + 1 if numbering == "seq" else rng.choice([0, 1, 7, 2 ** 32 - 1, i])
            toks.append(f"{'gl' if i == len(parts) - 1 else 'gb'}:{self.inv(rng, echo)}:{no}:{hx(p)}")
        return toks

    def good_exchange(self, rng, big=False):
        r = rng.random()
        if r < 0.25:
            n = rng.choice([0, 1, 2, 127, 128, 255, 256, 1000]) if not big else rng.choice([65535, 65536, 100000])
            return ("get", [f"gn:{INV0}:{hx(pattern(n, rng.randrange(256)))}"])
        if r < 0.55:
            n = rng.choice([0, 1, 5, 300, 2000]) if not big else rng.choice([65536, 100000])
            return ("get", self.blocks_script(rng, pattern(n, rng.randrange(256)), rng.choice([2, 3, 4, 9, 40]) if not big else rng.choice([2, 57, 200])))
        if r < 0.65:
            return ("get", [f"ge:{INV0}:{rng.choice(DAR)}"])
        if r < 0.72:
            s = self.blocks_script(rng, pattern(rng.randint(0, 200), 3), rng.randint(2, 6))
            s[-1] = f"gle:{INV0}:{len(s)}:{rng.choice(DAR)}"
            return ("get", s)
        if r < 0.82:
            return ("set", [f"sr:{INV0}:{rng.choice([0] + DAR)}"])
        if r < 0.88:
            return ("act", [f"ar:{INV0}:0"])
        if r < 0.94:
            return ("act", [f"ard:{INV0}:0:{hx(pattern(rng.randint(1, 300), 9))}:invalid"])
        return ("act", [rng.choice([f"are:{INV0}:{rng.choice([0] + ARS)}:{rng.choice(DAR)}", f"ar:{INV0}:{rng.choice(ARS)}",
                                    f"ard:{INV0}:{rng.choice(ARS)}:0901aa:invalid"])])

    def cases(self, rng, tier, deep):
        for ciphered in (False, True):
            def case(ops, tag, state="READY"):
                return self.make_case({"ciphered": ciphered, "state": state, "ops": ops, "tag": tag})
            # --- normal answers of boundary lengths
            for n in [0, 1, 2, 127, 128, 255, 256, 257, 65535, 65536] + ([100000, 99999] if deep else [100000]):
                yield case([("get", [f"gn:{INV0}:{hx(pattern(n, n % 251))}"]), ("get", [f"gn:{INV0}:0901ff"])], "normal")
            # --- block transfers
            for nb in ([2, 3, 4, 5, 17, 200] if not deep else list(range(2, 41)) + [57, 100, 128, 199, 200]):
                for n in ([0, 1, nb, 1000] if not deep else [0, 1, nb - 1, nb, 129, 1000, 5000]):
                    yield case([("get", self.blocks_script(rng, pattern(n, nb), nb, echo=rng.random() < 0.6,
                                                           numbering=rng.choice(["seq", "any"]))),
                                ("get", [f"gn:{INV0}:0901ff"])], "blocks")
            for n in ([100000] if not deep else [65535, 65536, 100000]):
                for nb in (2, 200):
                    yield case([("get", self.blocks_script(rng, pattern(n, 5), nb))], "blocks-large")
            # --- errors at every position
            for k in range(0, 6 if not deep else 12):
                for code in (rng.sample(DAR, 3) if not deep else DAR):
                    pre = [f"gb:{INV0}:{i + 1}:{hx(pattern(i * 3, i))}" for i in range(k)]
                    yield case([("get", pre + [f"ge:{INV0}:{code}"]), ("get", [f"gn:{INV0}:0901ff"])], "error-position")
                    yield case([("get", pre + [f"gle:{INV0}:{k + 1}:{code}"]), ("get", [f"gn:{INV0}:0901ff"])], "error-position")
            # --- other answers at every position
            others = ["ex:1:2", "ex:2:6", "dn", f"sr:{INV0}:0", f"ar:{INV0}:0", f"ard:{INV0}:0:0901aa:invalid", f"are:{INV0}:1:1", "undec", "rlre",
                      "aare:0:0", f"gl:{INV0}:1:0102", f"gn:{INV0}:0102"]
            for k in range(0, 3):
                for o in others:
                    pre = [f"gb:{INV0}:{i + 1}:{hx(pattern(4, i))}" for i in range(k)]
                    yield case([("get", pre + [o]), ("get", [f"gn:{INV0}:0901ff"])], "other-answer")
                pre = [f"gb:{INV0}:{i + 1}:{hx(pattern(4, i))}" for i in range(k)]
                yield case([("get", pre), ("get", [f"gn:{INV0}:0901ff"])], "no-answer")
                yield case([("get", pre + [f"gl:{INV0}:9:0a", f"gn:{INV0}:0b"] if k else [f"gn:{INV0}:0a", f"gn:{INV0}:0b"])], "surplus-answer")
            # --- SET / ACTION
            for code in [0] + DAR:
                yield case([("set", [f"sr:{INV0}:{code}"]), ("get", [f"gn:{INV0}:0901ff"])], "set")
            for o in others:
                yield case([("set", [o]), ("act", [o])], "set-act-other")
            for st in [0] + ARS:
                yield case([("act", [f"ar:{INV0}:{st}"]), ("act", [f"ard:{INV0}:{st}:{hx(pattern(st + 1, st))}:invalid"]),
                            ("act", [f"are:{INV0}:{st}:{DAR[st % len(DAR)]}"]), ("get", [f"gn:{INV0}:0901ff"])], "action")
            # an error answer whose status says success is still an error answer
            for code in DAR:
                yield case([("act", [f"are:{INV0}:0:{code}"]), ("get", [f"gn:{INV0}:0901ff"])], "action-error-status-success")
            yield case([("act", [f"ard:{INV0}:0:-:invalid"])], "action")
            # --- operations in states where they are not allowed
            for state in ("NO_ASSOCIATION", "AWAITING_GET_RESPONSE", "SHOULD_ACK_LAST_GET_BLOCK", "AWAITING_RELEASE_RESPONSE"):
                for name in ("get", "set", "act"):
                    yield case([(name, [f"gn:{INV0}:0102"])], "wrong-state", state)
            # --- associate / release
            assoc = [["aare:0:0"], ["aare:1:0"], ["aare:2:0"], ["undec"], []]
            if not ciphered:
                # (with ciphering an answer other than the AARE cannot be unprotected before the meter's title is known:
                #  the protection layer refuses it, which Model.Client does not describe)
                assoc += [["ex:1:2"], ["dn"], [f"gn:{INV0}:01"], ["rlre"]]
            if ciphered:
                assoc += [["aare:0:1", f"ard:{INV0}:0:-:valid"], ["aare:0:1", f"ard:{INV0}:0:090d10{'ab' * 12}:invalid"],
                          ["aare:0:1", f"ard:{INV0}:0:0911{'10'}{'00000001'}{'cd' * 12}:invalid"],
                          ["aare:0:1", f"ard:{INV0}:0:1105:unparsable"], ["aare:0:1", f"ard:{INV0}:0:-:invalid"], ["aare:0:1", f"ard:{INV0}:0:0203:unparsable"],
                          ["aare:0:1", f"ard:{INV0}:1:-:valid"], ["aare:0:1", f"ar:{INV0}:0"], ["aare:0:1", f"ar:{INV0}:3"],
                          ["aare:0:1", f"are:{INV0}:1:2"], ["aare:0:1"], ["aare:0:1", "ex:1:2"], ["aare:1:1"], ["aare:0:1", "undec"]]
            for a in assoc:
                yield case([("assoc", a), ("get", [f"gn:{INV0}:0901ff"]), ("release", ["rlre"]), ("get", [f"gn:{INV0}:0901ff"])], "associate",
                           "NO_ASSOCIATION")
            yield case([("release", ["rlre"]), ("assoc", ["aare:0:0"]), ("release", ["ex:1:2"]), ("release", [])], "release")
            # block transfers whose last-block flag is written 0xFF; associations that announce no / a tiny maximum PDU size;
            # a client on a pre-established association
            for nb in (2, 3, 7):
                toks = self.blocks_script(rng, pattern(50, nb), nb)
                toks[-1] = "glF" + toks[-1][2:]
                yield case([("get", toks), ("get", [f"gn:{INV0}:0901ff"])], "last-block-flag")
                toks2 = toks[:-1] + [f"gleF:{INV0}:{nb}:3"]
                yield case([("get", toks2), ("get", [f"gn:{INV0}:0901ff"])], "last-block-flag")
            for pdu in (0, 5, 12, 13, 65535):
                yield case([("assoc", [f"aare:0:0:{pdu}"]), ("get", [f"gn:{INV0}:0901ff"]), ("set", [f"sr:{INV0}:0"]), ("act", [f"ar:{INV0}:0"]),
                            ("get", self.blocks_script(rng, pattern(30, 3), 3))], "max-pdu-size", "NO_ASSOCIATION")
            for _ in range(6 if deep else 2):
                ops = [self.good_exchange(rng) for _ in range(rng.randint(3, 12))] + [("get", self.blocks_script(rng, pattern(40, 4), 4))]
                yield self.make_case({"ciphered": ciphered, "state": "READY", "ops": ops, "tag": "pre-established", "pre": True})
            # two clients in one process
            for ops in ([("get", [f"gn:{INV0}:0901ff"])], [("assoc", ["aare:0:0"]), ("get", [f"gb:{INV0}:1:01", f"gl:{INV0}:2:02"])]):
                yield self.make_case({"ciphered": ciphered, "state": "NO_ASSOCIATION" if ops[0][0] == "assoc" else "READY", "ops": ops,
                                      "tag": "second-client", "second_client": True})
            if ciphered:
                # meters that leave the title field of their ciphered APDUs empty
                for et in ("empty",):
                    ops = [("assoc", ["aare:0:0"])] + [self.good_exchange(rng) for _ in range(5)] + [("get", self.blocks_script(rng, pattern(40, 4), 4))]
                    yield self.make_case({"ciphered": True, "state": "NO_ASSOCIATION", "ops": ops, "tag": "envelope-title", "env_title": et})
                    yield self.make_case({"ciphered": True, "state": "READY", "ops": ops[1:], "tag": "envelope-title", "env_title": et})
                # clients built through the alternative constructors: what was configured is what the connection works with
                for via in ("tcp", "serial", "direct"):
                    yield self.ctor_case({"via": via, "cic": rng.choice([0, 5000, 2 ** 31]), "mic": rng.choice([0, 9, 77]), "suite": rng.choice([0, 2])})
            # --- sessions in which the meter's invocation counter is large / crosses 2^31 / approaches 2^32
            if ciphered:
                for mic0 in (2 ** 31 - 4, 2 ** 31, 0xC0000000, 2 ** 32 - 5000):
                    ops = [("assoc", ["aare:0:0"])] + [self.good_exchange(rng) for _ in range(6)]
                    yield self.make_case({"ciphered": True, "state": "NO_ASSOCIATION", "ops": ops, "tag": "meter-counter-large", "mic0": mic0})
                    ops = [self.good_exchange(rng) for _ in range(6)]
                    yield self.make_case({"ciphered": True, "state": "READY", "ops": ops, "tag": "meter-counter-large", "mic0": mic0})
            # --- sessions
            for _ in range(40 if deep else 6):
                ops = [self.good_exchange(rng) for _ in range(rng.randint(3, 60 if deep else 20))]
                yield case(ops, "session")
            for _ in range(3 if deep else 1):
                yield case([self.good_exchange(rng, big=True) for _ in range(3)], "session-large")


PROP = C19()
