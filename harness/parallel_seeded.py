"""Run kept seeded changes without touching /repo: each in its own scratch worktree of /repo (patch applied there) and its own
copy of /verif (with build output), through VERIF_REPO.  Used for the behaviour-preserving refactorings, whose runs have
thorough volume in every check whose anchor files they touch, and for clean-tree runs of edited checks while /repo is busy.
  parallel_seeded.py <jobs> <id> [<id> ...]       ids: seeded/<id> directories, or "clean" (no patch; props from --props)
  results go to seeded/<id>/result.json (not for "clean"); scratch copies are removed afterwards."""
import json
import os
import shutil
import subprocess
import sys
import time
from concurrent.futures import ThreadPoolExecutor

VERIF = os.path.dirname(os.path.dirname(os.path.abspath(__file__)))
sys.path.insert(0, os.path.join(VERIF, "harness"))
sys.path.insert(0, VERIF)


def sh(cmd, cwd=None, env=None, timeout=7200):
    p = subprocess.run(cmd, cwd=cwd, env=env, stdout=subprocess.PIPE, stderr=subprocess.STDOUT, text=True, timeout=timeout)
    return p.returncode, p.stdout


def one(sid, props, tier, slot):
    import seeded
    vcopy, rcopy = f"/tmp/pv-{slot}-{sid}", f"/tmp/pr-{slot}-{sid}"
    for d in (vcopy,):
        shutil.rmtree(d, ignore_errors=True)
    sh(["git", "-C", "/repo", "worktree", "remove", "--force", rcopy])
    sh(["git", "-C", "/repo", "worktree", "add", "--detach", rcopy, "HEAD"])
    results = {}
    try:
        shutil.copytree(VERIF, vcopy, ignore=shutil.ignore_patterns(".git", "replays", "seeded"), symlinks=True)
        os.makedirs(os.path.join(vcopy, "replays"), exist_ok=True)
        if sid != "clean":
            patch = os.path.join(VERIF, "seeded", sid, "patch.diff")
            rc, out = sh(["git", "-C", rcopy, "apply", patch])
            if rc:
                return sid, {"error": "patch does not apply: " + out[-300:]}
            meta = json.load(open(os.path.join(VERIF, "seeded", sid, "meta.json")))
            if not props:
                props = seeded.relevant_props(patch) if meta.get("harmless") else [meta["property"]]
        env = dict(os.environ, VERIF_REPO=rcopy)
        for prop in props:
            t0 = time.time()
            rc, out = sh([os.path.join(vcopy, "check"), prop, "--tier", tier], cwd=vcopy, env=env)
            lines = [l for l in out.splitlines() if l.startswith("VIOLATION") or l.startswith("[" + prop) or l.startswith("KNOWN-FINDING")]
            replay = None
            for l in lines:
                if l.startswith("VIOLATION") and "replay=" in l:
                    try:
                        r = json.load(open(os.path.join(vcopy, l.split("replay=")[1].split()[0])))
                        replay = {"type": r.get("type"), "broken": [o.get("what") for o in r.get("broken_obligations", [])],
                                  "first_case_kind": (r.get("case") or {}).get("kind"), "first": str(r.get("case") or r.get("correspondence_disagreements"))[:600]}
                    except Exception:
                        pass
            if rc not in (0, 1):
                lines.append(out[-600:])
            results[prop] = {"exit": rc, "lines": lines, "replay": replay, "wall_s": round(time.time() - t0, 1), "tier": tier}
            print(sid, prop, "exit", rc, [l[:140] for l in lines[:2]], (replay or {}).get("type"), flush=True)
    finally:
        shutil.rmtree(vcopy, ignore_errors=True)
        sh(["git", "-C", "/repo", "worktree", "remove", "--force", rcopy])
    if sid != "clean":
        rp = os.path.join(VERIF, "seeded", sid, "result.json")
        old = json.load(open(rp)) if os.path.exists(rp) else {}
        old.update(results)
        json.dump(old, open(rp, "w"), indent=1)
    return sid, results


if __name__ == "__main__":
    a = sys.argv[1:]
    tier = a[a.index("--tier") + 1] if "--tier" in a else "quick"
    props = a[a.index("--props") + 1].split(",") if "--props" in a else None
    a = [x for i, x in enumerate(a) if not x.startswith("--") and (i == 0 or a[i - 1] not in ("--tier", "--props"))]
    jobs, ids = int(a[0]), a[1:]
    with ThreadPoolExecutor(jobs) as ex:
        futs = [ex.submit(one, sid, props if sid == "clean" else None, tier, i) for i, sid in enumerate(ids)]
        for f in futs:
            f.result()
