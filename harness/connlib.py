"""Shared harness for the connection-level properties (C03, C04, C06, C07, C08).

The Lean model (Model.Conn) is symbolic: a protected text is the term naming key, title,
counter, security-control byte, authentication key and content.  This module plays the meter
with real keys and the real `cryptography` library, keeps a registry from real ciphertexts /
MACs to their symbolic terms, describes every decoded APDU symbolically (the real decoder's
verdict is what the model is given), and drives the real DlmsConnection.
"""
import os

import contextlib

from harness import framework as fw
from harness import refcrypto
from harness.props.c20 import CONF_NAMES

KINDS = ["aarq", "rlrq", "getReq", "getNext", "setReq", "actReq", "aare", "rlre", "getRespNormal", "getRespErr", "getRespBlock",
         "getRespLastBlock", "getRespLastBlockErr", "setResp", "actResp", "actRespData", "actRespErr", "exceptionResp",
         "dataNotif", "confirmedServiceErr", "initiateReq", "initiateResp", "gloInitReq", "gloInitResp", "generalGlo"]

REQUESTS = ["aarq", "rlrq", "getReq", "getNext", "setReq", "actReq"]
RESPONSES = ["aare", "rlre", "getRespNormal", "getRespErr", "getRespBlock", "getRespLastBlock", "getRespLastBlockErr", "setResp",
             "actResp", "actRespData", "actRespErr", "exceptionResp", "dataNotif", "confirmedServiceErr", "initiateResp"]


# variants of a kind which the model does not distinguish (same class for the state machine): bytes differ, the symbolic
# description is that of the base kind
ALIASES = {"exceptionRespIc": "exceptionResp",           # exception-response carrying invocation-counter-error + a counter value
           "exceptionRespIcBig": "exceptionResp",
           "getRespLastBlockFF": "getRespLastBlock",      # last-block TRUE encoded as 0xFF (A-XDR: any non-zero octet)
           "getRespLastBlock80": "getRespLastBlock",
           "getRespLastBlockErrFF": "getRespLastBlockErr",
           "getRespBlockEmpty": "getRespBlock",           # a block that is not the last one and carries no data
           "getRespLastBlockEmpty": "getRespLastBlock"}


def base_kind(kind):
    """`getReq@id5+unconf+low+sel`: a variant of a kind - same class for the state machine and for the model, other field values
    (invoke-id 5, service class unconfirmed, normal priority, with a selective-access descriptor)."""
    return kind.split("@")[0]


def unalias(tok):
    import re
    tok = re.sub(r"@[A-Za-z0-9+]+", "", tok)
    for a, b in sorted(ALIASES.items(), key=lambda x: -len(x[0])):
        tok = tok.replace("s." + a, "s." + b)
    return re.sub(r"emptyaad,[0-9a-f,]*", "junk", tok)       # (a forged tag is, symbolically, no MAC at all)


def apdu_bytes(kind, variant=0, size=None):
    """bytes of a sample APDU of a kind or of one of its variants."""
    from dlms_cosem import enumerations as en
    from dlms_cosem.protocol import xdlms
    if kind == "exceptionRespIc":
        return xdlms.ExceptionResponse(en.StateException.SERVICE_NOT_ALLOWED, en.ServiceException.INVOCATION_COUNTER_ERROR, 7).to_bytes()
    if kind == "exceptionRespIcBig":
        return xdlms.ExceptionResponse(en.StateException.SERVICE_NOT_ALLOWED, en.ServiceException.INVOCATION_COUNTER_ERROR, 2 ** 32 - 1).to_bytes()
    if kind in ("getRespLastBlockFF", "getRespLastBlock80", "getRespLastBlockErrFF"):
        b = bytearray(sample_object(ALIASES[kind], variant, size).to_bytes())
        assert b[3] == 1
        b[3] = 0x80 if kind.endswith("80") else 0xFF
        return bytes(b)
    if kind in ("getRespBlockEmpty", "getRespLastBlockEmpty"):
        cls = xdlms.GetResponseWithBlock if kind == "getRespBlockEmpty" else xdlms.GetResponseLastBlock
        return cls(b"", 1 + variant).to_bytes()
    return sample_object(kind, variant, size).to_bytes()


def key_bytes(kid, klen):
    return bytes([(kid * 17 + i) % 256 for i in range(klen)])


def conf_mask(c):
    return sum((1 << i) for i, n in enumerate(CONF_NAMES) if getattr(c, n))


def conf_obj(mask):
    from dlms_cosem.protocol.xdlms import Conformance
    return Conformance(**{n: bool(mask >> i & 1) for i, n in enumerate(CONF_NAMES)})


def class_kind(obj):
    from dlms_cosem.protocol import acse, xdlms
    table = [(acse.ApplicationAssociationRequest, "aarq"), (acse.ReleaseRequest, "rlrq"), (xdlms.GetRequestNormal, "getReq"),
             (xdlms.GetRequestNext, "getNext"), (xdlms.SetRequestNormal, "setReq"), (xdlms.ActionRequestNormal, "actReq"),
             (acse.ApplicationAssociationResponse, "aare"), (acse.ReleaseResponse, "rlre"), (xdlms.GetResponseNormal, "getRespNormal"),
             (xdlms.GetResponseNormalWithError, "getRespErr"), (xdlms.GetResponseWithBlock, "getRespBlock"),
             (xdlms.GetResponseLastBlock, "getRespLastBlock"), (xdlms.GetResponseLastBlockWithError, "getRespLastBlockErr"),
             (xdlms.SetResponseNormal, "setResp"), (xdlms.ActionResponseNormal, "actResp"),
             (xdlms.ActionResponseNormalWithData, "actRespData"), (xdlms.ActionResponseNormalWithError, "actRespErr"),
             (xdlms.ExceptionResponse, "exceptionResp"), (xdlms.DataNotification, "dataNotif"),
             (xdlms.ConfirmedServiceError, "confirmedServiceErr"), (xdlms.InitiateRequest, "initiateReq"),
             (xdlms.InitiateResponse, "initiateResp"), (xdlms.GlobalCipherInitiateRequest, "gloInitReq"),
             (xdlms.GlobalCipherInitiateResponse, "gloInitResp"), (xdlms.GeneralGlobalCipher, "generalGlo")]
    for cls, k in table:
        if type(obj) is cls:
            return k
    if obj is None:
        return "unknown"
    return "?" + type(obj).__name__


def sample_object(kind, variant=0, size=None):
    """a well-formed APDU object of the given kind (what the client sends / the meter answers)."""
    from dlms_cosem import cosem, enumerations as en
    from dlms_cosem.protocol import acse, xdlms
    from dlms_cosem.protocol.xdlms.data_notification import LongInvokeIdAndPriority
    if "@" in kind:
        kind, _, var = kind.partition("@")
        o = sample_object(kind, variant, size)
        toks = var.split("+")
        iip = getattr(o, "invoke_id_and_priority", None)
        if iip is not None and not isinstance(iip, LongInvokeIdAndPriority):
            from dlms_cosem.protocol.xdlms.invoke_id_and_priority import InvokeIdAndPriority
            iid = [int(t[2:]) for t in toks if t.startswith("id")]
            o.invoke_id_and_priority = InvokeIdAndPriority(iid[0] if iid else iip.invoke_id, "unconf" not in toks, "low" not in toks)
        if "sel" in toks and hasattr(o, "access_selection"):
            import datetime
            from dlms_cosem.protocol.xdlms import selective_access as sa
            o.cosem_attribute = cosem.CosemAttribute(en.CosemInterface.PROFILE_GENERIC, cosem.Obis(1, 0, 99, 1, 0, 255), 2)
            o.access_selection = sa.RangeDescriptor(
                restricting_object=sa.CaptureObject(cosem.CosemAttribute(en.CosemInterface.CLOCK, cosem.Obis(0, 0, 1, 0, 0, 255), 2), 0),
                from_value=datetime.datetime(2020, 1, 1, 0, 0), to_value=datetime.datetime(2020, 1, 6, 0, 0))
        return o
    attr = cosem.CosemAttribute(en.CosemInterface.REGISTER, cosem.Obis(1, 0, 1, 8, 0, 255), 2)
    meth = cosem.CosemMethod(en.CosemInterface.ASSOCIATION_LN, cosem.Obis(0, 0, 40, 0, 0), 1)
    payload = bytes([9, 4 + variant % 3]) + bytes(range(4 + variant % 3))
    if size is not None:
        from dlms_cosem.a_xdr import encode_variable_integer
        payload = b"\x09" + encode_variable_integer(size) + bytes((i * 13 + variant) % 256 for i in range(size))
    if kind == "getReq":
        return xdlms.GetRequestNormal(attr)
    if kind == "getNext":
        return xdlms.GetRequestNext(1 + variant)
    if kind == "setReq":
        return xdlms.SetRequestNormal(attr, payload)
    if kind == "actReq":
        return xdlms.ActionRequestNormal(meth, payload)
    if kind == "getRespNormal":
        return xdlms.GetResponseNormal(payload)
    if kind == "getRespErr":
        return xdlms.GetResponseNormalWithError(en.DataAccessResult.READ_WRITE_DENIED)
    if kind == "getRespBlock":
        return xdlms.GetResponseWithBlock(payload, 1 + variant)
    if kind == "getRespLastBlock":
        return xdlms.GetResponseLastBlock(payload, 2 + variant)
    if kind == "getRespLastBlockErr":
        return xdlms.GetResponseLastBlockWithError(en.DataAccessResult.HARDWARE_FAULT, 2)
    if kind == "setResp":
        return xdlms.SetResponseNormal(en.DataAccessResult.SUCCESS)
    if kind == "actResp":
        return xdlms.ActionResponseNormal(en.ActionResultStatus.SUCCESS)
    if kind == "actRespErr":
        return xdlms.ActionResponseNormalWithError(en.ActionResultStatus.HARDWARE_FAULT, en.DataAccessResult.HARDWARE_FAULT)
    if kind == "exceptionResp":
        return xdlms.ExceptionResponse(en.StateException.SERVICE_NOT_ALLOWED, en.ServiceException.OPERATION_NOT_POSSIBLE)
    if kind == "dataNotif":
        return xdlms.DataNotification(LongInvokeIdAndPriority(7 + variant), None, payload)
    if kind == "confirmedServiceErr":
        return xdlms.ConfirmedServiceError(en.InitiateError.DLMS_VERSION_TOO_LOW)
    if kind == "initiateReq":
        return xdlms.InitiateRequest(conf_obj(0x1F0B2), None, 1200)
    if kind == "initiateResp":
        return xdlms.InitiateResponse(conf_obj(0x1F0B2), 500)
    if kind == "rlre":
        return acse.ReleaseResponse(reason=en.ReleaseResponseReason.NORMAL)
    if kind == "rlrq":
        return acse.ReleaseRequest(reason=en.ReleaseRequestReason.NORMAL)
    raise fw.MachineryError("no sample object for " + kind)


class Meter:
    """builds real bytes for symbolic inputs and remembers which term each ciphertext / MAC stands for."""

    def __init__(self):
        self.ciphers = {}      # real ciphertext bytes -> token
        self.macs = {}         # real 12-byte mac -> token
        self.plains = {}       # real plaintext bytes -> inner token
        self.junk = 0

    # -- symbolic inner -> real plaintext
    def inner_bytes(self, inner):
        parts = inner.split(".")
        if parts[0] == "s":
            b = apdu_bytes(parts[1])
        elif parts[0] == "ard":
            from dlms_cosem import enumerations as en
            from dlms_cosem.protocol import xdlms
            b = xdlms.ActionResponseNormalWithData(en.ActionResultStatus(int(parts[1])), self.hls_bytes(".".join(parts[2:]))).to_bytes()
        elif parts[0] == "init":
            from dlms_cosem.protocol import xdlms
            b = xdlms.InitiateResponse(conf_obj(int(parts[1])), int(parts[2])).to_bytes()
        elif parts[0] == "undec":
            b = b"\xff\x01\x02"
        else:
            raise fw.MachineryError("inner " + inner)
        self.plains[bytes(b)] = unalias(inner)
        return bytes(b)

    def hls_bytes(self, h):
        """DLMS data carried by the meter's ACTION response."""
        if h.startswith("mal"):
            return {"mal0": b"", "mal1": b"\x11\x05", "mal2": b"\x09\x03\x01\x02\x03", "mal3": b"\x09\x05\xaa",
                    "mal4": b"\x09\x00", "mal5": b"\x02\x01\x09\x02\xaa\xbb",
                    "mal6": b"\x0a\x03abc", "mal7": b"\x17\x3f\x80\x00\x00", "mal8": b"\x01\x02\x09\x01\xaa\x09\x01\xbb",
                    "mal9": b"\x01\x01\x12\x01\x2c", "mal10": b"\x09\x11\x30" + bytes(16), "mal11": b"\x09\x11\x20" + bytes(16),
                    "mal12": b"\x0c\x03abc", "mal13": b"\xff", "mal14": b"\x00"}.get(h, b"\x11\x05")
        _, sc, ic, mac = h.split(";")
        body = bytes([int(sc)]) + int(ic).to_bytes(4, "big") + self.mac_bytes(mac)
        return b"\x09" + bytes([len(body)]) + body

    def mac_bytes(self, m):
        from dlms_cosem import security
        f = m.split(",")
        if f[0] == "junk":
            self.junk += 1
            b = bytes([(0xC0 + self.junk + i) % 256 for i in range(12)])
            self.macs[b] = "junk"
            return b
        if f[0] == "emptyaad":
            # a forgery that needs only the encryption key: the GCM tag over nothing
            from cryptography.hazmat.primitives.ciphers import Cipher, algorithms, modes
            _, kid, klen, title, ic = f
            enc = Cipher(algorithms.AES(key_bytes(int(kid), int(klen))), modes.GCM(bytes.fromhex(title) + int(ic).to_bytes(4, "big"), None, 12)).encryptor()
            enc.finalize()
            b = bytes(enc.tag[:12])
            self.macs[b] = "junk"
            return b
        _, kid, klen, title, ic, sc, akid, aklen, chal = f
        b = refcrypto.gmac(int(sc), bytes.fromhex(title), int(ic), key_bytes(int(kid), int(klen)), key_bytes(int(akid), int(aklen)),
                           bytes.fromhex(chal))
        self.macs[bytes(b)] = m
        return bytes(b)

    def cipher_bytes(self, tok):
        from dlms_cosem import security
        f = tok.split(":")
        if f[0] == "short":
            return b"\x01\x02\x03"
        if f[0] == "plain":
            # no protection at all: the plain encoding where the ciphertext belongs (symbolically: not a text made with any key)
            return self.inner_bytes(":".join(f[1:]))
        if f[0] == "junk":
            b = bytes([(int(f[1]) * 31 + i * 7 + 5) % 256 for i in range(20 + int(f[1]) % 9)])
            self.ciphers[b] = tok
            return b
        _, kid, klen, title, ic, sc, akid, aklen = f[:8]
        inner = ":".join(f[8:])
        plain = self.inner_bytes(inner)
        b = refcrypto.seal(int(sc), bytes.fromhex(title), int(ic), key_bytes(int(kid), int(klen)), plain, key_bytes(int(akid), int(aklen)))
        self.ciphers[bytes(b)] = unalias(tok)
        return bytes(b)

    def cipher_token(self, ct):
        ct = bytes(ct)
        if ct in self.ciphers:
            return self.ciphers[ct]
        if len(ct) < 12:
            return "short"
        return "junk:999"

    # -- symbolic input -> real bytes
    def input_bytes(self, toks):
        from dlms_cosem import enumerations as en, security
        from dlms_cosem.protocol import acse, xdlms
        k = toks[0]
        if k == "raw":
            return bytes.fromhex(toks[1])

        def ui_obj(u):
            if u == "absent":
                return None
            if u == "other":
                return acse.UserInformation(sample_object("confirmedServiceErr"))
            f = u.split(":")
            if f[0] == "init":
                return acse.UserInformation(xdlms.InitiateResponse(conf_obj(int(f[1])), int(f[2])))
            ct = self.cipher_bytes(":".join(f[3:]))
            return acse.UserInformation(xdlms.GlobalCipherInitiateResponse(
                security.SecurityControlField.from_bytes(bytes([int(f[1])])), int(f[2]), ct))
        if k == "aare" and len(toks) == 7 and toks[6].startswith("diag"):
            # the same AARE naming another result-source-diagnostic (the result decides, not the diagnostic)
            _, res, mech, title, chal, ui = toks[:6]
            return acse.ApplicationAssociationResponse(
                result=en.AssociationResult(int(res)), result_source_diagnostics=en.AcseServiceUserDiagnostics(int(toks[6][4:])),
                ciphered=True, authentication=None if mech == "none" else en.AuthenticationMechanism(int(mech)),
                system_title=None if title == "none" else bytes.fromhex(title),
                authentication_value=None if chal == "none" else bytes.fromhex(chal), user_information=ui_obj(ui)).to_bytes()
        if k == "aare" and len(toks) == 7:
            # the same AARE with its responder-acse-requirements bit string written another way (no unused bits / six unused bits
            # instead of seven): the same value in BER, the same AARE for the decoder
            b = self.input_bytes(toks[:6])
            alt = bytes.fromhex(toks[6])
            if b.count(b"\x88\x02\x07\x80") != 1:
                raise fw.MachineryError("responder-acse-requirements not found once in the AARE")
            b = b.replace(b"\x88\x02\x07\x80", b"\x88\x02" + alt)
            return b
        if k == "aare":
            _, res, mech, title, chal, ui = toks
            return acse.ApplicationAssociationResponse(
                result=en.AssociationResult(int(res)), result_source_diagnostics=en.AcseServiceUserDiagnostics.NULL,
                ciphered=True, authentication=None if mech == "none" else en.AuthenticationMechanism(int(mech)),
                system_title=None if title == "none" else bytes.fromhex(title),
                authentication_value=None if chal == "none" else bytes.fromhex(chal), user_information=ui_obj(ui)).to_bytes()
        if k == "rlre":
            return acse.ReleaseResponse(reason=en.ReleaseResponseReason.NORMAL, user_information=ui_obj(toks[1])).to_bytes()
        if k == "ggc":
            _, title, sc, ic, ct = toks
            return xdlms.GeneralGlobalCipher(bytes.fromhex(title), security.SecurityControlField.from_bytes(bytes([int(sc)])),
                                             int(ic), self.cipher_bytes(ct)).to_bytes()
        if k == "ard":
            return xdlms.ActionResponseNormalWithData(en.ActionResultStatus(int(toks[1])), self.hls_bytes(toks[2])).to_bytes()
        if k == "s":
            return apdu_bytes(toks[1])
        raise fw.MachineryError("input " + " ".join(toks))

    # -- decoded object -> symbolic description (the decoder's verdict handed to the model)
    def describe(self, data):
        from dlms_cosem.connection import XDlmsApduFactory
        from dlms_cosem.protocol import acse, xdlms
        try:
            o = XDlmsApduFactory.apdu_from_bytes(bytearray(data))
        except BaseException as e:                      # noqa
            if type(e).__name__ == "_Timeout":
                raise
            return "garbage"
        if o is None:
            return "s unknown"

        def oh(b):
            return "none" if b is None else fw.hx(b)

        def ui_tok(u):
            if u is None:
                return "absent"
            c = u.content
            if isinstance(c, xdlms.InitiateResponse):
                return f"init:{conf_mask(c.negotiated_conformance)}:{c.server_max_receive_pdu_size}"
            if isinstance(c, xdlms.GlobalCipherInitiateResponse):
                return f"glo:{c.security_control.to_bytes()[0]}:{c.invocation_counter}:{self.cipher_token(c.ciphered_text)}"
            return "other"
        if isinstance(o, acse.ApplicationAssociationResponse):
            mech = "none" if o.authentication is None else str(int(o.authentication))
            return f"aare {int(o.result)} {mech} {oh(o.system_title)} {oh(o.authentication_value)} {ui_tok(o.user_information)}"
        if isinstance(o, acse.ReleaseResponse):
            return f"rlre {ui_tok(o.user_information)}"
        if isinstance(o, xdlms.GeneralGlobalCipher):
            return (f"ggc {fw.hx(o.system_title)} {o.security_control.to_bytes()[0]} {o.invocation_counter} "
                    f"{self.cipher_token(o.ciphered_text)}")
        if isinstance(o, xdlms.ActionResponseNormalWithData):
            return f"ard {int(o.status)} {self.hls_token(bytes(o.data))}"
        return "s " + class_kind(o)

    def hls_token(self, data):
        if len(data) == 19 and data[0] == 9 and data[1] == 17:
            body = data[2:]
            mac = self.macs.get(bytes(body[5:]), "junk")
            return f"proof;{body[0]};{int.from_bytes(body[1:5], 'big')};{mac}"
        return "mal"


def obs_text(conn):
    def oh(b):
        return "none" if b is None else fw.hx(b)
    am = conn.authentication_method
    return (f"st={conn.state.current_state!r} cic={conn.client_invocation_counter} mic={conn.meter_invocation_counter} "
            f"mt={oh(conn.meter_system_title)} am={'none' if am is None else int(am)} mc={oh(conn.meter_to_client_challenge)} "
            f"conf={conf_mask(conn.conformance)} mp={conn.max_pdu_size}")


class Cfg:
    def __init__(self, title="0102030405060708", ek=None, ak=None, suite=0, pre=False, challenge="a1a2a3a4a5a6a7a8",
                 state="NO_ASSOCIATION", cic=0, mic=0, meter_title=None, conf=0x1F0B2, maxpdu=65535, auth=None, password=None, dedicated=0):
        self.title, self.ek, self.ak, self.suite, self.pre = title, ek, ak, suite, pre
        self.challenge, self.state, self.cic, self.mic = challenge, state, cic, mic
        self.meter_title, self.conf, self.maxpdu, self.auth, self.password = meter_title, conf, maxpdu, auth, password
        # 0: no dedicated ciphering; 1: use_dedicated_ciphering without a dedicated key; 2: with a dedicated key.  (The model does
        # not know the option: the library announces a dedicated key in the InitiateRequest but protects with the global keys.)
        self.dedicated = dedicated

    def to_json(self):
        return dict(self.__dict__)

    @staticmethod
    def from_json(d):
        c = Cfg()
        c.__dict__.update(d)
        return c

    def key_tok(self, k):
        return "none" if k is None else f"{k[0]}:{k[1]}"

    def init_line(self, real_conf=None):
        return (f"conn init {self.title} {self.key_tok(self.ek)} {self.key_tok(self.ak)} {self.suite} {int(self.pre)} {self.challenge} "
                f"{self.state} {self.cic} {self.mic} {self.meter_title or 'none'} {self.conf if real_conf is None else real_conf} {self.maxpdu} "
                f"{'none' if self.auth is None else self.auth}")

    def make_conn(self):
        from dlms_cosem import enumerations as en
        from dlms_cosem.connection import DlmsConnection
        ek = None if self.ek is None else key_bytes(*self.ek)
        ak = None if self.ak is None else key_bytes(*self.ak)
        if self.pre:
            conn = DlmsConnection.with_pre_established_association(
                conformance=conf_obj(self.conf), max_pdu_size=self.maxpdu, global_encryption_key=ek, global_authentication_key=ak,
                client_invocation_counter=self.cic, meter_invocation_counter=self.mic, client_system_title=bytes.fromhex(self.title),
                meter_system_title=None if self.meter_title is None else bytes.fromhex(self.meter_title))
            conn.security_suite = self.suite
        else:
            conn = DlmsConnection(client_system_title=bytes.fromhex(self.title), global_encryption_key=ek, global_authentication_key=ak,
                                  security_suite=self.suite, client_invocation_counter=self.cic, meter_invocation_counter=self.mic,
                                  meter_system_title=None if self.meter_title is None else bytes.fromhex(self.meter_title),
                                  authentication_method=None if self.auth is None else en.AuthenticationMechanism(self.auth),
                                  password=None if self.password is None else bytes.fromhex(self.password),
                                  max_pdu_size=self.maxpdu, conformance=conf_obj(self.conf))
        conn.client_to_meter_challenge = bytes.fromhex(self.challenge)
        if getattr(self, "dedicated", 0):
            conn.use_dedicated_ciphering = True
            if self.dedicated == 2:
                conn.global_dedicated_key = key_bytes(9, 16)
        return conn


class Session:
    """runs a history on the real connection and produces the driver's line format."""

    def __init__(self, cfg, meter):
        self.cfg = cfg
        self.meter = meter
        self.conn = cfg.make_conn()
        self.nonces = []           # (op, title, counter) observed at the security functions
        self.sent = []             # (kind, plain bytes, wire bytes)

    def describe_sent(self, kind, plain, wire, event_plain_ui=None):
        from dlms_cosem import security
        from dlms_cosem.protocol import acse, xdlms
        ek = None if self.cfg.ek is None else key_bytes(*self.cfg.ek)
        ak = None if self.cfg.ak is None else key_bytes(*self.cfg.ak)

        def seal_tok(title, scb, ic, ct, expect_plain, inner):
            if ek is None or ak is None:
                return "junk:0"
            try:
                p = refcrypto.open_(scb, title, ic, ek, ct, ak)
            except Exception:
                return "junk:0"
            if bytes(p) != bytes(expect_plain):
                return "junk:1"
            return f"seal:{self.cfg.key_tok(self.cfg.ek)}:{fw.hx(title)}:{ic}:{scb}:{self.cfg.key_tok(self.cfg.ak)}:{inner}"
        if wire[:1] == b"\xdb":
            g = xdlms.GeneralGlobalCipher.from_bytes(wire)
            scb = g.security_control.to_bytes()[0]
            return (f"ggc {fw.hx(g.system_title)} {scb} {g.invocation_counter} "
                    f"{seal_tok(g.system_title, scb, g.invocation_counter, g.ciphered_text, plain, 's.' + kind)}")
        if wire[:1] in (b"\x60", b"\x62"):
            o = (acse.ApplicationAssociationRequest if wire[0] == 0x60 else acse.ReleaseRequest).from_bytes(wire)
            ui = o.user_information
            if ui is not None and isinstance(ui.content, xdlms.GlobalCipherInitiateRequest):
                c = ui.content
                scb = c.security_control.to_bytes()[0]
                title = bytes.fromhex(self.cfg.title)
                return (f"acseglo {kind} {scb} {c.invocation_counter} "
                        f"{seal_tok(title, scb, c.invocation_counter, c.ciphered_text, event_plain_ui, 's.initiateReq')}")
            if ui is not None and event_plain_ui is not None and isinstance(ui.content, xdlms.InitiateRequest) and \
                    ui.content.to_bytes() != event_plain_ui:
                return f"plain {kind} ui-differs"
            return f"plain {kind}"
        if bytes(wire) != bytes(plain):
            return f"plain {kind} bytes-differ"
        return f"plain {kind}"

    def make_event(self, kind, has_ui, size=None):
        ev = self.make_event_(kind, has_ui, size)
        if kind in ("aarq", "rlrq"):
            self.last_acse = getattr(self, "last_acse", {})
            self.last_acse[kind] = ev
        return ev

    def make_event_(self, kind, has_ui, size=None):
        from dlms_cosem.protocol import acse
        from dlms_cosem import enumerations as en
        if kind in ("aarq", "rlrq") and int(has_ui) == 4:
            # the very object that was handed to send() the last time (a new attempt after a rejection, a second association)
            prev = getattr(self, "last_acse", {}).get(kind)
            if prev is not None:
                return prev
            has_ui = 1
        if kind == "aarq" and int(has_ui) in (2, 3):
            # an AARQ the caller builds itself (application context without ciphering, plain InitiateRequest):
            # with keys set the connection still has to cipher the InitiateRequest
            from dlms_cosem.protocol import xdlms
            return acse.ApplicationAssociationRequest(
                ciphered=False, system_title=self.conn.client_system_title,
                user_information=acse.UserInformation(xdlms.InitiateRequest(
                    proposed_conformance=self.conn.conformance, client_max_receive_pdu_size=self.conn.max_pdu_size,
                    # (3: the caller announces a dedicated key; everything is still protected with the configured global keys)
                    dedicated_key=key_bytes(11, len(self.conn.global_encryption_key or bytes(16))) if int(has_ui) == 3 else None)))
        if kind == "aarq":
            return self.conn.get_aarq()
        if kind == "rlrq":
            return self.conn.get_rlrq() if has_ui else acse.ReleaseRequest(reason=en.ReleaseRequestReason.NORMAL)
        if kind == "aare":
            return acse.ApplicationAssociationResponse(en.AssociationResult.ACCEPTED, en.AcseServiceUserDiagnostics.NULL)
        return sample_object(kind, len(self.sent), size)

    def send(self, kind, has_ui=True, size=None):
        ev = self.make_event(kind, has_ui, size)
        kind = base_kind(kind)
        ui_plain = None
        if kind in ("aarq", "rlrq") and getattr(ev, "user_information", None) is not None:
            ui_plain = ev.user_information.content.to_bytes()
        plain = ev.to_bytes()

        def do():
            wire = self.conn.send(ev)
            self.sent.append((kind, plain, bytes(wire)))
            return "ok " + self.describe_sent(kind, plain, bytes(wire), ui_plain)
        r = fw.guarded(do)
        return f"{r} | {obs_text(self.conn)}"

    def recv(self, data):
        def do():
            self.conn.receive_data(data)
            a = self.conn.next_event()
            return "ok " + class_kind(a)
        r = fw.guarded(do)
        if len(self.conn.buffer):
            # (left in place: what follows shows whether the refused bytes disturb the genuine continuation)
            r += f" buffer-not-empty:{len(self.conn.buffer)}"
        return f"{r} | {obs_text(self.conn)}"

    def hls(self):
        def do():
            b = self.conn.get_hls_reply()
            mac = bytes(b[5:])
            tok = (f"mac,{self.cfg.ek[0]},{self.cfg.ek[1]},{self.cfg.title},{int.from_bytes(b[1:5], 'big')},{b[0]},"
                   f"{self.cfg.ak[0]},{self.cfg.ak[1]},{fw.hx(self.conn.meter_to_client_challenge)}")
            from dlms_cosem import security
            # the harness's own verification must not go through a nonce observer installed on security.gmac
            want = refcrypto.gmac(b[0], bytes.fromhex(self.cfg.title), int.from_bytes(b[1:5], "big"), key_bytes(*self.cfg.ek),
                                  key_bytes(*self.cfg.ak), self.conn.meter_to_client_challenge)
            if mac != bytes(want) or len(b) != 17:
                tok = "junk"
            return f"ok {b[0]} {int.from_bytes(b[1:5], 'big')} {tok}"
        r = fw.guarded(do)
        return f"{r} | {obs_text(self.conn)}"


def transform_bytes(b, tr):
    """['flip', bit] | ['trunc', n] | ['append', hex] | ['replace', hex] applied to real bytes."""
    if not tr:
        return b
    if tr[0] == "flip":
        x = bytearray(b)
        bit = tr[1] % (len(x) * 8) if x else 0
        if x:
            x[bit // 8] ^= 1 << (bit % 8)
        return bytes(x)
    if tr[0] == "trunc":
        return b[:tr[1] % (len(b) + 1)]
    if tr[0] == "append":
        return b + bytes.fromhex(tr[1])
    if tr[0] == "replace":
        return bytes.fromhex(tr[1])
    raise fw.MachineryError("transform " + str(tr))


def run_history(cfg_json, ops):
    """ops: ['send', kind, ui] | ['recv', [tokens…], transform|None] | ['hls'].
    Returns (driver lines, impl thunk).  Real bytes are regenerated deterministically from the symbolic tokens, so a
    case is fully described by (cfg, ops)."""
    cfg = Cfg.from_json(cfg_json)
    meter = Meter()
    lines = [cfg.init_line()]
    real = []
    for op in ops:
        if op[0] == "send":
            lines.append(f"conn send {base_kind(op[1])} {min(int(op[2]), 1)}")
            real.append(None)
        elif op[0] == "recv":
            b = transform_bytes(meter.input_bytes(list(op[1])), op[2] if len(op) > 2 else None)
            real.append(b)
            with contextlib.redirect_stdout(fw._DEVNULL):       # (the library has stray print() calls)
                lines.append("conn recv " + meter.describe(b))
        else:
            lines.append("conn hls")
            real.append(None)

    def left(r, conn):
        return ("acc " if r.startswith("ok") else "ref ") + repr(conn.state.current_state)

    def impl(oracle=None):
        s = Session(cfg, meter)
        out = ["ok"]
        trace = []
        for op, b in zip(ops, real):
            before = obs_text(s.conn)
            if op[0] == "send":
                r = s.send(op[1], int(op[2]), op[3] if len(op) > 3 else None)
            elif op[0] == "recv":
                r = s.recv(b)
            else:
                r = s.hls()
            out.append(left(r, s.conn) + " | " + r)
            trace.append({"op": op, "bytes": b, "result": r.split(" | ")[0], "before": before, "after": obs_text(s.conn), "session": s})
        if oracle is not None:
            msg = oracle(trace, s)
            if msg:
                out[-1] += " !PROP " + msg
        return out
    return lines, impl
