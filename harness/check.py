import argparse
import importlib
import os
import sys
import traceback

sys.path.insert(0, os.path.dirname(os.path.dirname(os.path.abspath(__file__))))
from harness import framework as fw  # noqa: E402


def main():
    ap = argparse.ArgumentParser()
    ap.add_argument("prop")
    ap.add_argument("--tier", default=os.environ.get("VERIF_TIER", "quick"), choices=["quick", "thorough"])
    ap.add_argument("--replay", default=None)
    a = ap.parse_args()
    seed = int(os.environ.get("VERIF_SEED", "0") or 0)
    try:
        mod = importlib.import_module("harness.props." + a.prop.lower())
        prop = mod.PROP
        if a.replay:
            rc = fw.run_replay(prop, a.replay)
        else:
            rc = fw.run_check(prop, a.tier, seed)
    except fw.MachineryError as e:
        print(f"MACHINERY-ERROR {a.prop}: {e}")
        sys.exit(2)
    except Exception:
        traceback.print_exc()
        print(f"MACHINERY-ERROR {a.prop}: internal error")
        sys.exit(2)
    sys.exit(rc)


if __name__ == "__main__":
    main()
