#!/bin/bash
# soak: every check, quick and thorough tier, under the seeds given (default 7 13), against $VERIF_REPO (default /repo).
# usage (background, on a snapshot):  vp run --with-repo -- bash harness/soak.sh 7 13
cd "$(dirname "$0")/.."
[ -n "$VP_RUN_REPO" ] && export VERIF_REPO="$VP_RUN_REPO"
./setup.sh > soak-setup.log 2>&1 || { echo "setup failed"; tail -20 soak-setup.log; exit 2; }
seeds="${@:-7 13}"
bad=0
for s in $seeds; do
  for t in quick thorough; do
    for i in $(seq -w 1 20); do
      out=$(VERIF_SEED=$s ./check C$i --tier $t 2>&1); rc=$?
      echo "seed=$s tier=$t C$i exit=$rc $(echo "$out" | grep -E '^\[C' | tail -1)"
      if [ $rc -ne 0 ]; then bad=1; echo "$out" | grep -E 'VIOLATION|KNOWN|Traceback|Error' | head -5; fi
    done
  done
done
exit $bad
