"""Regenerate MANIFEST.json from the property modules that exist (claimed) and
properties.jsonl (everything else is listed under not_applicable with the reason)."""
import glob
import importlib
import json
import os
import sys

sys.path.insert(0, os.path.dirname(os.path.dirname(os.path.abspath(__file__))))
from harness import framework as fw  # noqa: E402

props = [json.loads(l) for l in open(os.path.join(fw.VERIF, "properties.jsonl"))]
mods = {}
for p in sorted(glob.glob(os.path.join(fw.VERIF, "harness", "props", "c*.py"))):
    m = importlib.import_module("harness.props." + os.path.basename(p)[:-3])
    mods[m.PROP.id] = m.PROP

NOT_CLAIMED_REASON = {}
try:
    NOT_CLAIMED_REASON = json.load(open(os.path.join(fw.VERIF, "harness", "not_claimed.json")))
except FileNotFoundError:
    pass

checks = []
na = []
for p in props:
    pid = p["id"]
    if pid in mods:
        pr = mods[pid]
        checks.append({
            "property_id": pid,
            "quick_cmd": f"./check {pid} --tier quick",
            "thorough_cmd": f"./check {pid} --tier thorough",
            "evidence_file": f"evidence/{pid}.json",
            "replay_cmd_template": f"./check {pid} --replay {{path}}",
            "engine": "lean4-model+correspondence",
            "level_claimed": {"category": pr.level, "text": pr.level_text, "design_ref": pr.design_ref},
            "level_note": pr.level_note,
            "technique": pr.technique,
        })
    else:
        na.append({"property_id": pid, "reason": NOT_CLAIMED_REASON.get(
            pid, "no check registered yet: the Lean model and correspondence for this property are still being built; nothing is claimed")})

manifest = {
    "version": 1,
    "setup_cmd": "./setup.sh",
    "hooks": {
        "guard": "DLMS_COSEM_VERIF",
        "enable": "no source hooks are needed: the harness passes scripted socket/serial/io objects through existing constructor arguments and wraps dlms_cosem.security from inside its own process; the variable is exported by ./check and unused by /repo",
        "baseline_off_cmd": "cd /repo && /venv/bin/python -m pytest -ra -q -p no:cacheprovider --timeout=900 --continue-on-collection-errors",
        "source_commits": [],
        "add_only": True,
    },
    "engines": [{
        "name": "lean4-model+correspondence",
        "path": "lean/ (Lean 4 project: Gen = regenerated from /repo, Model, Spec, Lemmas, Props, Driver) + harness/ (extract.py translator, framework.py verdict loop, props/*.py generators and oracles)",
        "serves_properties": sorted(mods),
        "kind_free_text": "machine-checked proof in Lean 4 about a model; model tied to /repo on every run by regeneration of tables/graphs (T1) and by a differential correspondence check through a line-protocol driver (T2)",
    }],
    "checks": checks,
    "not_applicable": na,
    "notes": "See DESIGN.md. Exit 0 = held; exit 1 + VIOLATION line = violation (with replay); exit 2 = machinery error/timeout.",
}
json.dump(manifest, open(os.path.join(fw.VERIF, "MANIFEST.json"), "w"), indent=1)
print(f"claimed {len(checks)}, not claimed {len(na)}")
