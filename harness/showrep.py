"""debug helper: print the first differing line of the failing cases in the newest replay of a property."""
import json, glob, os, sys
pid = sys.argv[1]
p = max(glob.glob(f'/verif/replays/{pid}-*.json'), key=os.path.getmtime)
d = json.load(open(p))
print(d['type'], [o['what'] for o in d['broken_obligations']])
cs = ([d['case']] if 'case' in d else []) + d.get('other_failing_cases', []) + d.get('correspondence_disagreements', [])
seen = set()
for c in cs[:int(sys.argv[2]) if len(sys.argv) > 2 else 6]:
    ds = c.get('descr', c)
    print(c.get('kind'), ds.get('tag'), ds.get('cfgname'))
    if 'lines' not in c:
        print('  ', json.dumps(ds)[:600]); continue
    for l, e, o in zip(c['lines'], c['expected_from_lean'], c['observed_from_implementation']):
        el, ol = e.split(' | ')[0], o.split(' | ')[0]
        if (el != 'na' and el != ol) or '!PROP' in o or e.split(' | ')[1:] != o.split('!PROP')[0].strip().split(' | ')[1:]:
            print('  L', l[:250]); print('  E', e[:300]); print('  O', o[:300] + (' ... ' + o[-250:] if len(o) > 300 else '')); break
