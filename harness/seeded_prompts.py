"""Writes the briefs for a round of seeded changes: one text file per property for a fresh sub-agent.  A brief holds the text
of the property (from properties.jsonl), the path of the agent's own scratch worktree, the rules (tests must pass, a
demonstration, a plausible motive) and one-line summaries of the changes earlier agents produced for that property (so that
the new ones differ) - nothing about the checks in /verif.
usage: seeded_prompts.py <round-number>      (worktrees /tmp/mut<r>-cXX must exist; briefs go to /tmp/mut<r>prompt-cXX.txt)"""
import glob
import json
import sys

R = sys.argv[1]
props = {}
for l in open('/verif/properties.jsonl'):
    d = json.loads(l)
    props[d['id']] = d
t = '''You are helping to test a verification suite by seeding realistic bugs into a Python library. You work ONLY inside the git worktree WORKTREE (a checkout of the library pwitab/dlms-cosem: a sans-io Python implementation of the DLMS/COSEM smart-meter protocol). Do not look at or touch anything outside that directory (in particular not /repo, /verif or /root), except /tmp files you create yourself. There is no network. Do NOT use `git stash` (the stash is shared with other worktrees): to run something on the clean tree use `git -C WORKTREE diff -- dlms_cosem > /tmp/xR-PID.diff; git -C WORKTREE checkout -- dlms_cosem; <run>; git -C WORKTREE apply /tmp/xR-PID.diff`.

The property the library is supposed to satisfy:

PROPTEXT

Earlier rounds already produced the NPREV changes listed below; a verification suite now catches all of them. Your job is to find what it may STILL miss: produce up to THREE further realistic changes to the library's source code (under WORKTREE/dlms_cosem/, never the tests) each of which BREAKS this property while
  (a) the package still imports and the whole existing test suite still passes: `cd WORKTREE && /venv/bin/python -m pytest -q -p no:cacheprovider` must report 221 passed (check that `cd WORKTREE && /venv/bin/python -c "import dlms_cosem; print(dlms_cosem.__file__)"` prints a path inside WORKTREE);
  (b) it looks like a bug a maintainer could plausibly introduce - small, a few lines, with a plausible motive (a comment saying why is welcome);
  (c) it is a CLEAR violation of the property as stated (quote to yourself the clause it breaks; do not rely on readings the text does not support, and stay within what the property quantifies over) and it is DIFFERENT in mechanism from all the earlier ones; prefer bugs that manifest only in a narrow region: a specific value or length, a combination of two parameters, a particular state or history, a rarely used but legitimate input form, an interaction between two features or two modules (the property's code paths also run through helper modules: look there too). Study the code paths the property names carefully and look for places where the earlier changes did not go. Do not add new public parameters or functions whose use is the only way to trigger the bug.
Earlier changes (do not repeat or merely vary them):
EARLIER

For each change number N (1..3):
  1. start from the clean tree (`git -C WORKTREE checkout -- .`), make the change;
  2. run the test suite (must be 221 passed);
  3. write a small demonstration script WORKTREE/demoN.py that uses the library's public API, prints what it observed, and exits with status 0 if the property is VIOLATED on the current tree and status 1 if it holds; run it on the changed tree (must exit 0) and on the clean tree (must exit 1);
  4. save the change: `git -C WORKTREE diff -- dlms_cosem > WORKTREE/patchN.diff`;
  5. write WORKTREE/metaN.json: {"summary": "<one sentence: what was changed>", "needs": "<what specific input/state/sequence makes it manifest>", "clause": "<the words of the property it violates>", "files": [...]}.
Finish with a clean tree apart from the untracked demoN.py / patchN.diff / metaN.json files. Do not commit anything.

Report briefly: for each N the summary, what makes it manifest, and the outputs of the test run and of the demo on both trees. Fewer than three good ones is fine; say what you tried and rejected.
'''
for pid, d in props.items():
    wt = f"/tmp/mut{R}-{pid.lower()}"
    earlier = []
    for m in sorted(glob.glob(f'/verif/seeded/{pid}-*/meta.json')):
        j = json.load(open(m))
        earlier.append(f"  - {' '.join(str(j.get('summary', '')).split())[:260]} (files: {', '.join(j.get('files', []))})")
    txt = (f"Title: {d['title']}\n\nStatement: {d['statement']}\n\nQuantified over: {d['quantifier']['text']}\n\n"
           f"Relevant code: {', '.join(d['anchors']['files'])}\n")
    open(f"/tmp/mut{R}prompt-{pid.lower()}.txt", "w").write(
        t.replace("WORKTREE", wt).replace("xR-PID", f"x{R}-{pid.lower()}").replace("PROPTEXT", txt).replace("NPREV", str(len(earlier)))
        .replace("EARLIER", "\n".join(earlier)))
print(len(glob.glob(f'/tmp/mut{R}prompt-*')))
