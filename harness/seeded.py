"""Seeded-change bookkeeping.

  seeded.py ingest <PROP> <worktree> <N>   verify patchN.diff / demoN.py / metaN.json of a sub-agent in its scratch worktree
                                           (tests still pass, demo shows the violation on the changed tree and none on the
                                           clean one) and keep it as /verif/seeded/<PROP>-<k>/
  seeded.py run <id> [--tier quick]        apply the kept change to /repo, run the property's check, undo, record result.json
  seeded.py runall                         every kept change
  seeded.py table                          markdown table of the results (for DESIGN.md)
"""
import json
import os
import shutil
import subprocess
import sys
import time

VERIF = os.path.dirname(os.path.dirname(os.path.abspath(__file__)))
SEEDED = os.path.join(VERIF, "seeded")
PY = "/venv/bin/python"


def sh(cmd, cwd=None, timeout=1800):
    p = subprocess.run(cmd, cwd=cwd, shell=isinstance(cmd, str), stdout=subprocess.PIPE, stderr=subprocess.STDOUT, text=True, timeout=timeout)
    return p.returncode, p.stdout


def ingest(prop, wt, n):
    patch, demo, meta = (os.path.join(wt, f"{x}{n}.{e}") for x, e in (("patch", "diff"), ("demo", "py"), ("meta", "json")))
    for f in (patch, demo):
        if not os.path.exists(f):
            print("missing", f)
            return 1
    sh(["git", "-C", wt, "checkout", "--", "."])
    rc, out = sh([PY, demo], cwd=wt, timeout=300)
    clean_rc = rc
    rc, out = sh(["git", "-C", wt, "apply", patch])
    if rc:
        print("patch does not apply:", out)
        return 1
    rc, tests = sh([PY, "-m", "pytest", "-q", "-p", "no:cacheprovider", "-x"], cwd=wt, timeout=900)
    tests_tail = tests.strip().splitlines()[-1] if tests.strip() else ""
    rc_demo, demo_out = sh([PY, demo], cwd=wt, timeout=300)
    sh(["git", "-C", wt, "checkout", "--", "."])
    ok = ("221 passed" in tests_tail) and rc_demo == 0 and clean_rc == 1
    print(f"{prop} #{n}: tests='{tests_tail}' demo(changed)={rc_demo} demo(clean)={clean_rc} -> {'KEEP' if ok else 'REJECT'}")
    if not ok:
        print(demo_out[-1500:])
        return 1
    k = 1
    while os.path.exists(os.path.join(SEEDED, f"{prop}-{k}")):
        k += 1
    dst = os.path.join(SEEDED, f"{prop}-{k}")
    os.makedirs(dst)
    shutil.copy(patch, os.path.join(dst, "patch.diff"))
    shutil.copy(demo, os.path.join(dst, "demo.py"))
    m = {}
    if os.path.exists(meta):
        try:
            m = json.load(open(meta))
        except Exception:
            m = {"summary": open(meta).read()[:500]}
    m.update({"id": f"{prop}-{k}", "property": prop, "origin": "fresh sub-agent given only the property text and a scratch worktree",
              "verified": {"tests": tests_tail, "demo_exit_on_changed_tree": rc_demo, "demo_exit_on_clean_tree": clean_rc,
                           "demo_output": demo_out[-1200:], "at": time.strftime("%Y-%m-%d")},
              "base_commit": sh(["git", "-C", wt, "rev-parse", "--short", "HEAD"])[1].strip()})
    json.dump(m, open(os.path.join(dst, "meta.json"), "w"), indent=1)
    print("kept as", dst)
    return 0


ALL_PROPS = [f"C{i:02d}" for i in range(1, 21)]


def ingest_harmless(wt, n):
    """a behaviour-preserving refactoring from a sub-agent: patch applies, the tests pass; kept as seeded/harmless-<k>/."""
    patch, meta = os.path.join(wt, f"patch{n}.diff"), os.path.join(wt, f"meta{n}.json")
    if not os.path.exists(patch):
        print("missing", patch)
        return 1
    sh(["git", "-C", wt, "checkout", "--", "."])
    rc, out = sh(["git", "-C", wt, "apply", patch])
    if rc:
        print("patch does not apply:", out)
        return 1
    rc, tests = sh([PY, "-m", "pytest", "-q", "-p", "no:cacheprovider", "-x"], cwd=wt, timeout=900)
    tests_tail = tests.strip().splitlines()[-1] if tests.strip() else ""
    sh(["git", "-C", wt, "checkout", "--", "."])
    if "221 passed" not in tests_tail:
        print("REJECT", tests_tail)
        return 1
    k = 1
    while os.path.exists(os.path.join(SEEDED, f"harmless-{k}")):
        k += 1
    dst = os.path.join(SEEDED, f"harmless-{k}")
    os.makedirs(dst)
    shutil.copy(patch, os.path.join(dst, "patch.diff"))
    m = json.load(open(meta)) if os.path.exists(meta) else {}
    m.update({"id": f"harmless-{k}", "property": None, "harmless": True,
              "origin": "fresh sub-agent asked for a behaviour-preserving refactoring of named files (no property text, nothing from /verif)",
              "verified": {"tests": tests_tail, "at": time.strftime("%Y-%m-%d")}})
    json.dump(m, open(os.path.join(dst, "meta.json"), "w"), indent=1)
    print("kept as", dst)
    return 0


def relevant_props(patch):
    """the properties whose anchor files the patch touches (for everything else the code under check is byte-identical to
    the unchanged tree, on which those checks are run anyway)."""
    import importlib
    sys.path.insert(0, VERIF)
    files = set()
    for line in open(patch):
        if line.startswith("+++ b/"):
            files.add(line[6:].strip())
    out = []
    for pid in ALL_PROPS:
        mod = importlib.import_module("harness.props." + pid.lower())
        if files & set(mod.PROP.anchors):
            out.append(pid)
    return out


def run(sid, tier="quick", props=None):
    d = os.path.join(SEEDED, sid)
    meta = json.load(open(os.path.join(d, "meta.json")))
    rc, st = sh(["git", "-C", "/repo", "status", "--porcelain", "--untracked-files=no"])
    if st.strip():
        print("/repo has uncommitted changes; refusing")
        return 2
    rc, out = sh(["git", "-C", "/repo", "apply", os.path.join(d, "patch.diff")])
    if rc:
        print("patch does not apply to /repo:", out)
        return 2
    results = {}
    try:
        if not props and meta.get("harmless"):
            props = relevant_props(os.path.join(d, "patch.diff"))
        for prop in (props or [meta["property"]]):
            t0 = time.time()
            rc, out = sh([os.path.join(VERIF, "check"), prop, "--tier", tier], cwd=VERIF, timeout=3600)
            lines = [l for l in out.splitlines() if l.startswith("VIOLATION") or l.startswith("[" + prop) or l.startswith("KNOWN-FINDING")]
            replay_type = None
            for l in lines:
                if l.startswith("VIOLATION") and "replay=" in l:
                    rp = l.split("replay=")[1].split()[0]
                    try:
                        r = json.load(open(os.path.join(VERIF, rp)))
                        replay_type = {"type": r.get("type"), "broken": [o.get("what") for o in r.get("broken_obligations", [])],
                                       "first_case_kind": (r.get("case") or {}).get("kind")}
                    except Exception:
                        pass
            results[prop] = {"exit": rc, "lines": lines, "replay": replay_type, "wall_s": round(time.time() - t0, 1), "tier": tier}
            print(sid, prop, "exit", rc, lines[:2], replay_type)
    finally:
        sh(["git", "-C", "/repo", "checkout", "--", "."])
        sh(["git", "-C", "/repo", "clean", "-fdq", "--", "dlms_cosem"])      # files a patch added
        sh(["git", "-C", VERIF, "checkout", "--", "evidence"])
    res_path = os.path.join(d, "result.json")
    old = json.load(open(res_path)) if os.path.exists(res_path) else {}
    old.update(results)
    json.dump(old, open(res_path, "w"), indent=1)
    return 0


def table(out=None):
    import io
    buf = io.StringIO()
    _table(buf)
    text = buf.getvalue()
    if out is None:
        print(text)
    return text


def update_design():
    """rewrite the table between the markers in DESIGN.md."""
    path = os.path.join(VERIF, "DESIGN.md")
    s = open(path).read()
    a, b = "<!-- seeded-table-begin -->", "<!-- seeded-table-end -->"
    i, j = s.index(a) + len(a), s.index(b)
    open(path, "w").write(s[:i] + "\n" + table(out=False) + s[j:])


def _table(f):
    rows = []
    for sid in sorted(os.listdir(SEEDED)):
        d = os.path.join(SEEDED, sid)
        if not os.path.isdir(d):
            continue
        m = json.load(open(os.path.join(d, "meta.json")))
        r = json.load(open(os.path.join(d, "result.json"))) if os.path.exists(os.path.join(d, "result.json")) else {}
        cells = []
        if m.get("harmless"):
            alarms = [p_ for p_, x in r.items() if x["exit"] != 0]
            cells.append(f"{len(r)} checks run, " + ("none reports" if not alarms else "REPORTED by " + ", ".join(
                f"{p_} ({(r[p_]['replay'] or {}).get('type', 'exit ' + str(r[p_]['exit']))})" for p_ in alarms)))
            rows.append(f"| {sid} | {' '.join(str(m.get('summary', '')).replace('|', '/').split())[:150]} | (behaviour-preserving) | {'; '.join(cells)} |")
            continue
        for prop, x in r.items():
            how = "missed" if x["exit"] == 0 else (x["replay"] or {}).get("type", "?") if x["exit"] == 1 else f"exit {x['exit']}"
            cells.append(f"{prop}: {how}")
        clean = lambda t, n: " ".join(str(t).replace("|", "/").split())[:n]
        rows.append(f"| {sid} | {clean(m.get('summary', ''), 150)} | {clean(m.get('needs', ''), 110)} | {'; '.join(cells)} |")
    n = len(rows)
    print(f"{n} kept changes.\n", file=f)
    print("| id | change | needs | result of the check |\n|---|---|---|---|", file=f)
    print("\n".join(rows), file=f)


if __name__ == "__main__":
    a = sys.argv[1:]
    if a[0] == "ingest":
        sys.exit(ingest(a[1], a[2], int(a[3])))
    if a[0] == "ingest-harmless":
        sys.exit(ingest_harmless(a[1], int(a[2])))
    if a[0] == "run":
        tier = a[a.index("--tier") + 1] if "--tier" in a else "quick"
        props = a[a.index("--props") + 1].split(",") if "--props" in a else None
        sys.exit(run(a[1], tier, props))
    if a[0] == "runall":
        for sid in sorted(os.listdir(SEEDED)):
            if os.path.isdir(os.path.join(SEEDED, sid)) and not os.path.exists(os.path.join(SEEDED, sid, "result.json")):
                run(sid)
        sys.exit(0)
    if a[0] == "table":
        table()
    if a[0] == "design":
        update_design()
