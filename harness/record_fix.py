"""record_fix.py <property> <defect id> <what failed>  - append a 'fixed' entry naming /repo's HEAD commit."""
import json
import subprocess
import sys

from pathlib import Path

path = Path(__file__).resolve().parent.parent / "known_findings.json"
prop, did, what = sys.argv[1], sys.argv[2], sys.argv[3]
commit = subprocess.run(["git", "-C", "/repo", "log", "--format=%h", "-1"], stdout=subprocess.PIPE, text=True).stdout.strip()
data = json.load(open(path))
data["findings"] = [f for f in data["findings"] if not (f["property"] == prop and f["id"] == did)]
data["findings"].append({"property": prop, "id": did, "status": "fixed", "commit": commit,
                         "line": f"fixed: property={prop} {commit} {what}", "what": what})
json.dump(data, open(path, "w"), indent=1)
print("recorded", prop, did, commit)
