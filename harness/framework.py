"""Shared machinery of every check: build + audit of the Lean side, the correspondence
engine (driver vs implementation), the verdict algorithm of DESIGN.md §3.2, replay files,
known findings and the evidence writer.

A property module (harness/props/cxx.py) exposes a `PROP` object (subclass of `Prop`).
"""
import ast
import contextlib
import fcntl
import hashlib
import json
import os
import random
import re
import resource
import signal
import subprocess
import sys
import time
import traceback

VERIF = os.path.dirname(os.path.dirname(os.path.abspath(__file__)))
REPO = os.environ.get("VERIF_REPO", "/repo")
LEAN_DIR = os.path.join(VERIF, "lean")
GEN_DIR = os.path.join(LEAN_DIR, "DlmsVerif", "Gen")
DRIVER = os.path.join(LEAN_DIR, ".lake", "build", "bin", "driver")
EVIDENCE_DIR = os.path.join(VERIF, "evidence")
REPLAY_DIR = os.path.join(VERIF, "replays")
CORPUS_DIR = os.path.join(VERIF, "corpus")
KNOWN_FINDINGS = os.path.join(VERIF, "known_findings.json")
FINGERPRINTS = os.path.join(VERIF, "fingerprints.json")
LOCK_FILE = os.path.join(LEAN_DIR, ".build.lock")
PYTHON = "/venv/bin/python"

ALLOWED_AXIOMS = {"propext", "Classical.choice", "Quot.sound"}
FORBIDDEN_TOKENS = re.compile(
    r"\b(sorry|admit|native_decide|bv_decide|implemented_by|unsafe)\b|^\s*axiom\s|maxHeartbeats\s+0\b",
    re.M,
)

import logging
logging.disable(logging.CRITICAL)

HOOK_ENV = "DLMS_COSEM_VERIF"
os.environ.setdefault(HOOK_ENV, "1")


class MachineryError(Exception):
    """Internal error of the checking machinery: exit code 2, never a violation."""


# --------------------------------------------------------------------------- cases

class Case:
    """One unit of comparison.

    lines    : protocol lines sent to the Lean driver (>= 1; several for a stateful history)
    impl     : zero-argument callable returning the implementation's canonical outputs,
               one string per line (a single string is accepted for single-line cases)
    kind     : 'prop'  - the driver output is what the *property* demands (Spec); a
                         mismatch is a violation of the property on this input
               'model' - the driver output is the hand-written model's behaviour outside
                         what the property states; a mismatch breaks the correspondence
                         and triggers the failing-input search
    descr    : JSON-able description (goes into replay files and evidence samples)
    tags     : strings counted into the evidence histogram
    """

    __slots__ = ("lines", "impl", "kind", "descr", "tags", "nontrivial")

    def __init__(self, lines, impl, kind="prop", descr=None, tags=(), nontrivial=True):
        self.lines = [lines] if isinstance(lines, str) else list(lines)
        self.impl = impl
        self.kind = kind
        self.descr = descr if descr is not None else {"lines": self.lines}
        self.tags = tuple(tags)
        self.nontrivial = nontrivial


class Mismatch:
    def __init__(self, case, expected, observed):
        self.case = case
        self.expected = expected
        self.observed = observed

    def to_json(self):
        return {
            "kind": self.case.kind,
            "descr": self.case.descr,
            "lines": self.case.lines,
            "expected_from_lean": self.expected,
            "observed_from_implementation": self.observed,
        }


# --------------------------------------------------------------------------- impl calls

_DEVNULL = open(os.devnull, "w")


class _Timeout(BaseException):
    pass


def _alarm(signum, frame):
    raise _Timeout()


DEFAULT_ERR_MAP = [
    # (exception class name, canonical class); first match wins, by MRO names
    ("LocalDlmsProtocolError", "protocol"),
    ("LocalProtocolError", "protocol"),
    ("PreEstablishedAssociationError", "preEstablished"),
    ("DecryptionError", "auth"),
    ("ProtectionError", "protection"),
    ("CipheringError", "protection"),
    ("DataResultError", "client"),
    ("ActionError", "client"),
    ("HLSError", "client"),
    ("DlmsClientException", "client"),
    ("HdlcParsingError", "parse"),
    ("NotImplementedError", "decode"),      # (a subclass of RuntimeError: must come first)
    ("RuntimeError", "protection"),
    ("ValueError", "decode"),
    ("KeyError", "decode"),
    ("IndexError", "decode"),
    ("TypeError", "decode"),
    ("AssertionError", "decode"),
    ("OverflowError", "decode"),
    ("AttributeError", "decode"),
    ("struct.error", "decode"),
    ("MemoryError", "diverged"),
    ("RecursionError", "diverged"),
]


def classify_exception(exc, err_map=None):
    names = [c.__name__ for c in type(exc).__mro__]
    for name, canon in (err_map or []) + DEFAULT_ERR_MAP:
        if name in names:
            return canon
    return "other:" + type(exc).__name__


def call_impl(fn, timeout=2.0, err_map=None):
    """Run an implementation thunk under a watchdog. Returns list[str] or a single str."""
    old = signal.signal(signal.SIGALRM, _alarm)
    signal.setitimer(signal.ITIMER_REAL, timeout)
    try:
        with contextlib.redirect_stdout(_DEVNULL):      # the library has stray print() calls
            return fn()
    except _Timeout:
        return "diverged"
    except BaseException as e:  # noqa: the implementation may raise anything
        if isinstance(e, (KeyboardInterrupt, SystemExit)):
            raise
        return "err " + classify_exception(e, err_map)
    finally:
        signal.setitimer(signal.ITIMER_REAL, 0)
        signal.signal(signal.SIGALRM, old)


def guarded(fn, err_map=None):
    """For stateful histories: run one step, return 'err <class>' if it raises."""
    try:
        return fn()
    except _Timeout:
        raise
    except BaseException as e:
        if isinstance(e, (KeyboardInterrupt, SystemExit)):
            raise
        return "err " + classify_exception(e, err_map)


def limit_memory(gib=6):
    """Soft address-space limit for this (Python) process only: a runaway decoder gets a
    MemoryError instead of exhausting the machine.  Children (lake, lean, driver) reset it,
    because Lean cannot create threads under RLIMIT_AS."""
    try:
        _, hard = resource.getrlimit(resource.RLIMIT_AS)
        resource.setrlimit(resource.RLIMIT_AS, (gib << 30, hard))
    except (ValueError, OSError):
        pass


def _unlimit():
    try:
        _, hard = resource.getrlimit(resource.RLIMIT_AS)
        resource.setrlimit(resource.RLIMIT_AS, (hard, hard))
    except (ValueError, OSError):
        pass


def scribble(o, _seen=None, _depth=0):
    """what a caller may legitimately do with a value a decoder handed out: overwrite it.  Every mutable part of `o` (fields of
    nested attrs objects that accept assignment, list elements, bytearrays) is changed in place.  A later, independent decode
    of the same bytes has to be unaffected: decoding is a function of the bytes alone (a decoder that hands out shared or
    cached objects fails this).  Frozen objects refuse the assignment and are left alone."""
    import enum
    try:
        import attr
    except Exception:  # noqa
        attr = None
    if _seen is None:
        _seen = set()
    if o is None or id(o) in _seen or _depth > 6:
        return
    _seen.add(id(o))
    if isinstance(o, bytearray):
        for i in range(len(o)):
            o[i] ^= 0xFF
        o.extend(b"\x55")
        return
    if isinstance(o, (list, tuple)):
        for x in o:
            scribble(x, _seen, _depth + 1)
        return
    if attr is not None and not isinstance(o, type) and attr.has(type(o)):
        for f in attr.fields(type(o)):
            try:
                v = getattr(o, f.name)
            except Exception:  # noqa
                continue
            if isinstance(v, enum.Enum):
                ms = list(type(v))
                new = ms[(ms.index(v) + 1) % len(ms)]
            elif isinstance(v, bool):
                new = not v
            elif isinstance(v, int):
                new = v ^ 5
            elif isinstance(v, bytes):
                new = v + b"\x99"
            elif v is None:
                continue
            else:
                scribble(v, _seen, _depth + 1)
                continue
            try:
                setattr(o, f.name, new)
            except Exception:  # noqa
                pass


def transplant(dst, src, _depth=0):
    """give the object `dst` the field values of `src` (same class), field by field and recursively through nested attrs objects
    that both hold - what a caller does who re-uses one request / descriptor object for the next item.  What `dst` then
    serialises to must be what a freshly built `src` serialises to: the encoding is a function of the current field values."""
    try:
        import attr
    except Exception:  # noqa
        return
    if _depth > 6 or type(dst) is not type(src) or not attr.has(type(dst)):
        return
    for f in attr.fields(type(dst)):
        try:
            a, b = getattr(dst, f.name), getattr(src, f.name)
        except Exception:  # noqa
            continue
        if a is not None and b is not None and type(a) is type(b) and not isinstance(a, type) and attr.has(type(a)) and _depth < 6:
            transplant(a, b, _depth + 1)
            continue
        try:
            setattr(dst, f.name, b)
        except Exception:  # noqa
            pass


_PRIMED = False
_PRIME_CONN = []


def _failing_parse():
    """a link awaiting a response receives a complete, valid frame of a kind it does not take there (a pushed UI frame): the
    parser raises."""
    try:
        from dlms_cosem.hdlc import frames
        from dlms_cosem.hdlc.address import HdlcAddress
        from dlms_cosem.hdlc.connection import HdlcConnection
        c, s = HdlcAddress(16, None, "client"), HdlcAddress(1, 17, "server")
        if not _PRIME_CONN:
            conn = HdlcConnection(s, c)
            conn.send(frames.SetNormalResponseModeFrame(s, c))
            conn.receive_data(frames.UnNumberedAcknowledgmentFrame(c, s, b"").to_bytes())
            conn.next_event()
            conn.send(frames.InformationFrame(s, c, b"\xe6\xe6\x00\xc0\x01", send_sequence_number=0, receive_sequence_number=0))
            _PRIME_CONN.append((conn, frames.UnnumberedInformationFrame(c, s, b"\xe6\xe7\x00\x0f").to_bytes()))
        conn, ui = _PRIME_CONN[0]
        conn.buffer = bytearray()
        conn.buffer_search_position = 1
        conn.receive_data(ui)
        try:
            conn.next_event()
        except _Timeout:
            raise
        except Exception:  # noqa
            pass
        conn.buffer = bytearray()
        conn.buffer_search_position = 1
    except _Timeout:
        raise
    except Exception:  # noqa
        pass


def prime_failed_parses():
    """once per process, before cases that expect a refusal: the library goes through what any long-lived process has seen -
    a link that received a frame it could not parse (bad check sequence, a frame kind not expected there, noise) and a DLMS
    connection that received undecodable bytes.  Whether a value is accepted or refused afterwards must not depend on it."""
    global _PRIMED
    if _PRIMED:
        # (every time: the last thing the library did before the case is a parse that failed with an exception)
        with contextlib.redirect_stdout(_DEVNULL):
            _failing_parse()
        return
    _PRIMED = True
    with contextlib.redirect_stdout(_DEVNULL):
        try:
            from dlms_cosem.hdlc import frames, state as hstate
            from dlms_cosem.hdlc.address import HdlcAddress
            from dlms_cosem.hdlc.connection import HdlcConnection
            c, s = HdlcAddress(16, None, "client"), HdlcAddress(1, 17, "server")
            conn = HdlcConnection(s, c)
            conn.send(frames.SetNormalResponseModeFrame(s, c))
            for junk in (b"\x7e\xa0\x08\x21\x02\x23\x73\x00\x00\x7e", b"\x7e\x01\x02\x7e", frames.UnnumberedInformationFrame(c, s, b"\x01").to_bytes()):
                try:
                    conn.receive_data(junk)
                    for _ in range(4):
                        conn.next_event()
                except _Timeout:
                    raise
                except Exception:  # noqa
                    pass
                conn.buffer = bytearray()
                conn.buffer_search_position = 1
            conn.receive_data(frames.UnNumberedAcknowledgmentFrame(c, s, b"").to_bytes())
            conn.next_event()
            conn.send(frames.InformationFrame(s, c, b"\xe6\xe6\x00\xc0\x01", send_sequence_number=0, receive_sequence_number=0))
            for junk in (frames.UnnumberedInformationFrame(c, s, b"\x01\x02").to_bytes(), b"\x7e\xa0\x0a\x21\x02\x23\x30\x11\x22\x33\x44\x7e"):
                try:
                    conn.receive_data(junk)
                    for _ in range(4):
                        conn.next_event()
                except _Timeout:
                    raise
                except Exception:  # noqa
                    pass
                conn.buffer = bytearray()
                conn.buffer_search_position = 1
        except _Timeout:
            raise
        except Exception:  # noqa
            pass
        _failing_parse()
        try:
            from dlms_cosem.connection import DlmsConnection
            d = DlmsConnection(client_system_title=b"CLIENT01")
            for junk in (b"\xff\x01", b"\xc4\x01", b"\x61\x03\x01"):
                try:
                    d.receive_data(junk)
                    d.next_event()
                except _Timeout:
                    raise
                except Exception:  # noqa
                    pass
        except _Timeout:
            raise
        except Exception:  # noqa
            pass


def hx(b):
    if b is None:
        return "none"
    b = bytes(b)
    return b.hex() if b else "-"


# --------------------------------------------------------------------------- Lean side

class BuildResult:
    def __init__(self):
        self.extract_ok = True
        self.extract_log = ""
        self.gen_changed = []
        self.build_ok = True
        self.driver_ok = True
        self.build_log = ""
        self.failed_modules = []
        self.error_lines = []
        self.audit_ok = True
        self.audit_log = ""
        self.theorems = {}  # name -> axioms list
        self.forbidden = []
        self.recheck_ok = True
        self.leanchecker = None
        self.wall_s = 0.0


@contextlib.contextmanager
def build_lock():
    os.makedirs(LEAN_DIR, exist_ok=True)
    with open(LOCK_FILE, "w") as f:
        fcntl.flock(f, fcntl.LOCK_EX)
        try:
            yield
        finally:
            fcntl.flock(f, fcntl.LOCK_UN)


def run(cmd, cwd=None, timeout=1800, env=None):
    p = subprocess.run(cmd, cwd=cwd, stdout=subprocess.PIPE, stderr=subprocess.STDOUT,
                       timeout=timeout, env=env, text=True, preexec_fn=_unlimit)
    return p.returncode, p.stdout


def extract_gen(res):
    rc, out = run([PYTHON, os.path.join(VERIF, "harness", "extract.py"), GEN_DIR], cwd=REPO, timeout=300)
    res.extract_log = out
    res.extract_ok = rc == 0
    res.gen_changed = [l.split()[1] for l in out.splitlines() if l.startswith("wrote ")]


def lake_build(targets, res):
    rc, out = run(["lake", "build"] + targets, cwd=LEAN_DIR, timeout=3000)
    res.build_log += out
    if rc != 0:
        for l in out.splitlines():
            m = re.match(r"^- (\S+)$", l.strip())
            if m:
                res.failed_modules.append(m.group(1))
            if l.startswith("error:") and "build failed" not in l and "Lean exited" not in l:
                res.error_lines.append(l)
    return rc == 0


def theorem_names(module_file, namespace):
    src = open(module_file).read()
    # strip comments
    src_nc = re.sub(r"/-.*?-/", "", src, flags=re.S)
    src_nc = re.sub(r"--.*", "", src_nc)
    return [namespace + "." + m for m in re.findall(r"^theorem\s+([A-Za-z0-9_.']+)", src_nc, flags=re.M)]


def import_closure(module):
    """files of the project that `module` (e.g. DlmsVerif.Props.C09) transitively imports."""
    seen, todo = set(), [module]
    while todo:
        m = todo.pop()
        if m in seen:
            continue
        path = os.path.join(LEAN_DIR, *m.split(".")) + ".lean"
        if not os.path.exists(path):
            continue
        seen.add(m)
        for imp in re.findall(r"^import\s+(DlmsVerif\.[A-Za-z0-9_.]+)", open(path).read(), flags=re.M):
            todo.append(imp)
    return [os.path.join(LEAN_DIR, *m.split(".")) + ".lean" for m in sorted(seen)]


def scan_forbidden(prop_id):
    """forbidden tokens in the property's own import closure (comments stripped)."""
    hits = []
    for p in import_closure(f"DlmsVerif.Props.{prop_id}"):
        src = open(p).read()
        src_nc = re.sub(r"/-.*?-/", lambda m: "\n" * m.group(0).count("\n"), src, flags=re.S)
        src_nc = re.sub(r"--.*", "", src_nc)
        for m in FORBIDDEN_TOKENS.finditer(src_nc):
            line = src_nc.count("\n", 0, m.start()) + 1
            hits.append(f"{os.path.relpath(p, LEAN_DIR)}:{line}: {m.group(0).strip()}")
    return hits


def audit_axioms(prop_id, theorems, res):
    """#print axioms for every property theorem; all must be within ALLOWED_AXIOMS."""
    if not theorems:
        return
    tmp = os.path.join(LEAN_DIR, ".lake", f"audit_{prop_id}_{os.getpid()}.lean")
    with open(tmp, "w") as f:
        f.write(f"import DlmsVerif.Props.{prop_id}\n")
        for t in theorems:
            f.write(f"#print axioms {t}\n")
    try:
        rc, out = run(["lake", "env", "lean", tmp], cwd=LEAN_DIR, timeout=900)
    finally:
        try:
            os.remove(tmp)
        except OSError:
            pass
    res.audit_log = out
    flat = re.sub(r"\s+", " ", out)
    for t in theorems:
        short = t
        m = re.search(re.escape("'" + short + "'") + r" depends on axioms: \[([^\]]*)\]", flat)
        if m:
            axs = [a.strip() for a in m.group(1).split(",") if a.strip()]
        elif re.search(re.escape("'" + short + "'") + r" does not depend on any axioms", flat):
            axs = []
        else:
            axs = None
        res.theorems[t] = axs
        if axs is None or not set(axs) <= ALLOWED_AXIOMS:
            res.audit_ok = False
    if rc != 0:
        res.audit_ok = False


def recheck_olean(prop_id, res):
    """thorough tier: re-check the compiled property module (and everything it imports) with leanchecker, the
    toolchain's independent checker of .olean files."""
    rc, out = run(["lake", "env", "leanchecker", f"DlmsVerif.Props.{prop_id}"], cwd=LEAN_DIR, timeout=1800)
    res.leanchecker = {"rc": rc, "tail": out[-400:]}
    return rc == 0


def build_and_audit(prop_id, extra_targets=(), recheck=False):
    res = BuildResult()
    t0 = time.time()
    with build_lock():
        extract_gen(res)
        res.driver_ok = lake_build(["driver"], res)
        res.build_ok = lake_build([f"DlmsVerif.Props.{prop_id}"] + list(extra_targets), res)
        props_file = os.path.join(LEAN_DIR, "DlmsVerif", "Props", f"{prop_id}.lean")
        names = theorem_names(props_file, f"Props.{prop_id}")
        if res.build_ok:
            audit_axioms(prop_id, names, res)
            if recheck and not recheck_olean(prop_id, res):
                res.recheck_ok = False
        else:
            res.theorems = {n: None for n in names}
            res.audit_ok = False
    res.forbidden = scan_forbidden(prop_id)
    res.wall_s = time.time() - t0
    return res


def run_driver(lines):
    if not os.path.exists(DRIVER):
        raise MachineryError("driver executable missing: " + DRIVER)
    p = subprocess.run([DRIVER], input="\n".join(lines) + "\n", stdout=subprocess.PIPE,
                       stderr=subprocess.PIPE, text=True, timeout=3000, preexec_fn=_unlimit)
    if p.returncode != 0:
        raise MachineryError(f"driver exited {p.returncode}: {p.stderr[:500]}")
    out = p.stdout.split("\n")
    if out and out[-1] == "":
        out.pop()
    if len(out) != len(lines):
        raise MachineryError(f"driver returned {len(out)} lines for {len(lines)} requests")
    return out


# --------------------------------------------------------------------------- fingerprints (T3)

def ast_fingerprint(path):
    try:
        src = open(path).read()
        tree = ast.parse(src)
        # drop docstrings: they are not behaviour
        for node in ast.walk(tree):
            if isinstance(node, (ast.FunctionDef, ast.ClassDef, ast.AsyncFunctionDef, ast.Module)):
                if node.body and isinstance(node.body[0], ast.Expr) and isinstance(
                        getattr(node.body[0], "value", None), ast.Constant) and isinstance(
                        node.body[0].value.value, str):
                    node.body = node.body[1:] or [ast.Pass()]
        return hashlib.sha256(ast.dump(tree, include_attributes=False).encode()).hexdigest()[:16]
    except Exception as e:  # unparsable source: fingerprint the failure
        return "unparsable:" + type(e).__name__


def fingerprint_changes(anchor_files):
    try:
        base = json.load(open(FINGERPRINTS))
    except Exception:
        base = {}
    changed = []
    for rel in anchor_files:
        cur = ast_fingerprint(os.path.join(REPO, rel))
        if base.get(rel) != cur:
            changed.append(rel)
    return changed


# --------------------------------------------------------------------------- property base class

class Prop:
    id = "C00"
    title = ""
    anchors = []          # files of /repo whose AST fingerprint deepens the run when changed
    err_map = None
    level = "proof"
    design_ref = ""
    trusted_base = []
    assumptions = []
    rule = ""
    chunk = 4000

    def cases(self, rng, tier, deep):
        """Yield Case objects. `deep` = thorough volume requested (thorough tier, changed
        fingerprint, broken proof or broken correspondence)."""
        raise NotImplementedError

    def corpus_cases(self):
        return []

    def finding_key(self, mismatch):
        """Map a mismatch to the id of a known finding (or None)."""
        return None

    def known_witness_cases(self, finding):
        """Cases replaying the witness of a known finding (must still fail)."""
        return []


# --------------------------------------------------------------------------- engine

class Stats:
    def __init__(self):
        self.evaluations = 0
        self.lines = 0
        self.distinct = set()
        self.tags = {}
        self.outcomes = {}
        self.samples = []
        self.kinds = {"prop": 0, "model": 0}


def evaluate_cases(prop, case_iter, stats, max_mismatches=25, sample_every=None, stop_on=None):
    """Run cases through driver and implementation; return list of Mismatch."""
    mismatches = []
    buf = []
    t_start = [time.time()]
    budget = float(os.environ.get("VERIF_FAILING_RUN_BUDGET", "300"))

    def flush():
        if not buf:
            return
        lines = []
        for c in buf:
            lines.extend(c.lines)
        outs = run_driver(lines)
        pos = 0
        for c in buf:
            exp = outs[pos:pos + len(c.lines)]
            pos += len(c.lines)
            n_prop_ = sum(1 for m in mismatches if m.case.kind == "prop")
            if n_prop_ >= max_mismatches:
                break       # enough failing inputs; do not burn watchdog time on more of them
            if n_prop_ and time.time() - t_start[0] > budget:
                stats.tags["cut-short-after-failing-input"] = 1
                break       # a failing input is in hand and the run crawls
            t_ = getattr(prop, "timeout", 2.0) * max(1, len(c.lines) // 20 + 1)
            obs = call_impl(c.impl, timeout=t_, err_map=prop.err_map)
            if obs == "diverged":
                # the watchdog runs on wall-clock time: on a loaded machine (other checks, disk traffic) a harmless case can be
                # stalled past it.  A case is "diverged" only if it also exceeds a five times longer limit when run again.
                obs = call_impl(c.impl, timeout=max(10.0, 5 * t_), err_map=prop.err_map)
                stats.tags["watchdog-retry"] = stats.tags.get("watchdog-retry", 0) + 1
            if isinstance(obs, str):
                obs = [obs] + (["-"] * (len(c.lines) - 1) if obs in ("diverged",) or obs.startswith("err ") else [])
                if len(obs) != len(c.lines) and len(c.lines) > 1:
                    obs = obs + ["?"] * (len(c.lines) - len(obs))
            stats.evaluations += 1
            stats.lines += len(c.lines)
            stats.kinds[c.kind] = stats.kinds.get(c.kind, 0) + 1
            if c.nontrivial:
                stats.distinct.add(hashlib.blake2b("\n".join(c.lines).encode(), digest_size=8).digest())
            for t in c.tags:
                stats.tags[t] = stats.tags.get(t, 0) + 1
            oc = (obs[-1].split(" ")[0] + ((" " + obs[-1].split(" ")[1]) if obs[-1].startswith("err ") else "")) if obs else "?"
            stats.outcomes[oc] = stats.outcomes.get(oc, 0) + 1
            if len(stats.samples) < 6 and (stats.evaluations in (1, 2, 3) or stats.evaluations % 997 == 0):
                stats.samples.append({"descr": c.descr, "lines": c.lines[:6], "expected": exp[:6], "observed": obs[:6]})
            if "bad-op" in exp:
                i = list(exp).index("bad-op")
                raise MachineryError(f"driver rejected protocol line {c.lines[i]!r} (line {i} of {c.lines[:2]}…)")
            if c.kind == "fault":
                # lines = [parse(original), parse(corrupted)].  The property: the original parses to its
                # content, and the corrupted string is refused or yields exactly that content.
                good = (exp[0] == obs[0] and exp[0].startswith("ok ")
                        and (obs[1].startswith("err ") or obs[1] == exp[0]))
                if not good:
                    c.kind = "prop"
                    mismatches.append(Mismatch(c, exp, obs))
                elif list(exp) != list(obs):
                    c.kind = "model"
                    mismatches.append(Mismatch(c, exp, obs))
                else:
                    c.kind = "fault"
                continue
            if list(exp) != list(obs):
                if c.kind == "split":
                    # lines are "<what the property demands> | <what the model of the code does>"
                    # the left part "na" means: outside what the property speaks about
                    pairs = [(e.split(" | ")[0], o.split(" | ")[0]) for e, o in zip(exp, obs)]
                    flagged = any("!PROP" in o for o in obs)      # the harness's own property oracle fired on the implementation
                    c.kind = "prop" if (flagged or len(exp) != len(obs) or any(e != o for e, o in pairs if e != "na")) else "model"
                    if c.kind == "model" and [e.split(" | ")[1:] for e in exp] == [o.split(" | ")[1:] for o in obs]:
                        c.kind = "split"
                        continue
                mismatches.append(Mismatch(c, exp, obs))
        buf.clear()

    for c in case_iter:
        buf.append(c)
        if sum(len(x.lines) for x in buf) >= prop.chunk:
            flush()
            n_prop = sum(1 for m in mismatches if m.case.kind == "prop")
            if n_prop >= max_mismatches:
                break
            if n_prop and time.time() - t_start[0] > budget:
                # a failing input is in hand and the run is slow (changed code can make every case crawl): report now.
                # (A run without property mismatches is never cut short.)
                stats.tags["cut-short-after-failing-input"] = 1
                break
            if len(mismatches) - n_prop > 400:
                # keep memory bounded: drop surplus model-level disagreements (they are counted below)
                keep = [m for m in mismatches if m.case.kind == "prop"]
                keep += [m for m in mismatches if m.case.kind != "prop"][:400]
                stats.dropped_model = getattr(stats, "dropped_model", 0) + len(mismatches) - len(keep)
                mismatches[:] = keep
    flush()
    return mismatches


def load_known_findings():
    try:
        data = json.load(open(KNOWN_FINDINGS))
    except FileNotFoundError:
        return []
    return data.get("findings", [])


def write_replay(prop_id, payload):
    os.makedirs(REPLAY_DIR, exist_ok=True)
    h = hashlib.sha256(json.dumps(payload, sort_keys=True, default=str).encode()).hexdigest()[:12]
    path = os.path.join(REPLAY_DIR, f"{prop_id}-{h}.json")
    with open(path, "w") as f:
        json.dump(payload, f, indent=1, default=str)
    return os.path.relpath(path, VERIF)


def run_check(prop, tier, seed):
    t0 = time.time()
    limit_memory()
    sys.path.insert(0, REPO)
    rng = random.Random(seed)
    violations = []      # (replay_path, no_input_found)
    known_lines = []
    notes = []

    # 1-3. extract, build, audit
    res = build_and_audit(prop.id, recheck=(tier == "thorough" and os.environ.get("VERIF_NO_LEANCHECKER") != "1"))
    obligations_broken = []
    if not res.extract_ok:
        obligations_broken.append({"what": "extraction of Gen from /repo failed", "log": res.extract_log[-2000:]})
    if not res.build_ok:
        obligations_broken.append({"what": "lake build of Props." + prop.id + " failed",
                                   "modules": res.failed_modules, "errors": res.error_lines[:20],
                                   "log": res.build_log[-3000:]})
    elif not res.audit_ok:
        bad = {k: v for k, v in res.theorems.items() if v is None or not set(v) <= ALLOWED_AXIOMS}
        obligations_broken.append({"what": "axiom audit failed", "theorems": bad, "log": res.audit_log[-2000:]})
    if res.forbidden:
        obligations_broken.append({"what": "forbidden token in Lean sources", "hits": res.forbidden})
    if not res.recheck_ok:
        obligations_broken.append({"what": "leanchecker rejected the compiled property module", "log": (res.leanchecker or {}).get("tail")})
    if not res.driver_ok:
        raise MachineryError("driver does not build:\n" + res.build_log[-3000:])

    changed = fingerprint_changes(prop.anchors)
    deep = tier == "thorough" or bool(changed) or bool(obligations_broken)
    if changed:
        notes.append({"fingerprint_changed": changed, "effect": "quick tier deepened to thorough volume"})

    findings = [f for f in load_known_findings() if f.get("property") == prop.id]
    open_findings = {f["id"]: f for f in findings if f.get("status") == "open"}

    stats = Stats()

    def all_cases(deep_):
        for c in prop.corpus_cases():
            yield c
        for c in prop.cases(rng, tier, deep_):
            yield c

    # 4. correspondence / property cases
    mismatches = evaluate_cases(prop, all_cases(deep), stats)

    # 5. search when something broke but the first pass (quick volume) found nothing
    prop_mm = [m for m in mismatches if m.case.kind == "prop"]
    model_mm = [m for m in mismatches if m.case.kind == "model"]
    if (obligations_broken or model_mm) and not prop_mm and not deep:
        deep = True
        rng2 = random.Random(seed + 1)
        more = evaluate_cases(prop, prop.cases(rng2, "thorough", True), stats)
        prop_mm += [m for m in more if m.case.kind == "prop"]
        model_mm += [m for m in more if m.case.kind == "model"]

    # classify against known findings
    seen_known = {}
    new_prop_mm = []
    for m in prop_mm:
        k = prop.finding_key(m)
        if k is not None and k in open_findings:
            seen_known.setdefault(k, m)
        else:
            new_prop_mm.append(m)
    new_model_mm = []
    for m in model_mm:
        k = prop.finding_key(m)
        if k is not None and k in open_findings:
            seen_known.setdefault(k, m)
        else:
            new_model_mm.append(m)

    # 6. replay witnesses of open findings
    for fid, f in open_findings.items():
        wcases = prop.known_witness_cases(f)
        still = False
        if wcases:
            wm = evaluate_cases(prop, wcases, Stats())
            still = bool(wm)
        else:
            still = fid in seen_known
        if still:
            known_lines.append(f"KNOWN-FINDING: property={prop.id} {fid}: {f.get('what', '')}")
        else:
            notes.append({"known_finding_no_longer_fails": fid})

    # verdict
    if new_prop_mm:
        m = new_prop_mm[0]
        payload = {"property": prop.id, "tier": tier, "seed": seed, "type": "failing-input",
                   "case": m.to_json(), "other_failing_cases": [x.to_json() for x in new_prop_mm[1:6]],
                   "broken_obligations": obligations_broken,
                   "replay_cmd": f"./check {prop.id} --replay <this file>"}
        violations.append((write_replay(prop.id, payload), False))
    elif new_model_mm or obligations_broken:
        payload = {"property": prop.id, "tier": tier, "seed": seed, "type": "no-failing-input-found",
                   "broken_obligations": obligations_broken,
                   "correspondence_disagreements": [x.to_json() for x in new_model_mm[:6]],
                   "searched": {"evaluations": stats.evaluations, "deep": deep},
                   "replay_cmd": f"./check {prop.id} --tier thorough"}
        violations.append((write_replay(prop.id, payload), True))

    wall = time.time() - t0
    thms = res.theorems
    discharged = sum(1 for v in thms.values() if v is not None and set(v) <= ALLOWED_AXIOMS)
    evidence = {
        "property_id": prop.id,
        "tier": tier,
        "seed": seed,
        "level": prop.level,
        "coverage": {
            "obligations": max(1, len(thms)),
            "discharged": discharged,
            "checker_cmd": f"lake build DlmsVerif.Props.{prop.id} && #print axioms (lean {lean_version()})",
            "trusted_base": ["Lean 4 kernel", "axioms: " + ", ".join(sorted({a for v in thms.values() if v for a in v}) or ["none"])]
                            + list(prop.trusted_base),
            "theorems": {k: v for k, v in thms.items()},
            "evaluations": stats.evaluations,
            "protocol_lines": stats.lines,
            "distinct_nontrivial": len(stats.distinct),
            "rule": prop.rule,
            "samples": stats.samples or [{"note": "no cases generated"}],
            "case_kinds": stats.kinds,
            "tag_histogram": dict(sorted(stats.tags.items())),
            "outcome_histogram": dict(sorted(stats.outcomes.items())),
            "gen_files_rewritten": res.gen_changed,
            "build_wall_s": round(res.wall_s, 2),
            "leanchecker": res.leanchecker,
            "deepened": deep,
            "notes": notes,
            "known_findings_reported": known_lines,
            "mismatches_prop": len(prop_mm),
            "mismatches_model": len(model_mm),
            "exhaustive": bool(getattr(prop, "exhaustive", False)),
        },
        "assumptions": list(prop.assumptions),
        "wall_s": round(wall, 2),
        "violations": len(violations),
    }
    os.makedirs(EVIDENCE_DIR, exist_ok=True)
    with open(os.path.join(EVIDENCE_DIR, f"{prop.id}.json"), "w") as f:
        json.dump(evidence, f, indent=1, default=str)

    for l in known_lines:
        print(l)
    for path, noinput in violations:
        print(f"VIOLATION property={prop.id} replay={path}" + (" no-failing-input-found" if noinput else ""))
    print(f"[{prop.id}] tier={tier} seed={seed} theorems={discharged}/{len(thms)} cases={stats.evaluations} "
          f"mismatch(prop/model)={len(prop_mm)}/{len(model_mm)} wall={wall:.1f}s")
    return 1 if violations else 0


_LEAN_VERSION = None


def lean_version():
    global _LEAN_VERSION
    if _LEAN_VERSION is None:
        try:
            _LEAN_VERSION = subprocess.run(["lean", "--version"], stdout=subprocess.PIPE, text=True).stdout.split(",")[0].strip()
        except Exception:
            _LEAN_VERSION = "unknown"
    return _LEAN_VERSION


def run_replay(prop, path):
    limit_memory()
    sys.path.insert(0, REPO)
    payload = json.load(open(path))
    if payload.get("type") != "failing-input":
        print(f"replay file names no failing input: {payload.get('broken_obligations')}")
        return run_check(prop, "thorough", int(payload.get("seed", 0)))
    res = build_and_audit(prop.id)
    if not res.driver_ok:
        raise MachineryError("driver does not build")
    c = prop.case_from_descr(payload["case"]["descr"], payload["case"]["kind"])
    mm = evaluate_cases(prop, [c], Stats())
    if mm:
        print(json.dumps(mm[0].to_json(), indent=1, default=str))
        print(f"VIOLATION property={prop.id} replay={os.path.relpath(path, VERIF) if os.path.isabs(path) else path}")
        return 1
    print(f"[{prop.id}] replay no longer fails")
    return 0


def _prop_case_from_descr(self, descr, kind=None):
    return self.make_case(descr)


Prop.case_from_descr = _prop_case_from_descr
