"""Write the T3 baseline (AST fingerprints of every anchor file) for the tree the checks
were validated on.  Run with /venv/bin/python (ast.dump differs between Python versions) after the unchanged tree (plus committed fix: commits) is clean."""
import glob
import importlib
import json
import os
import sys

sys.path.insert(0, os.path.dirname(os.path.dirname(os.path.abspath(__file__))))
from harness import framework as fw  # noqa: E402

files = set()
for p in sorted(glob.glob(os.path.join(fw.VERIF, "harness", "props", "c*.py"))):
    mod = importlib.import_module("harness.props." + os.path.basename(p)[:-3])
    files.update(mod.PROP.anchors)
out = {rel: fw.ast_fingerprint(os.path.join(fw.REPO, rel)) for rel in sorted(files)}
json.dump(out, open(fw.FINGERPRINTS, "w"), indent=1, sort_keys=True)
print(f"wrote {len(out)} fingerprints")
