"""stmtdiff.py <old.lean> <new.lean> <prefix>: check that every `theorem <prefix>…` statement of old is textually (modulo whitespace) in new."""
import re
import sys


def stmts(s, prefix):
    out = {}
    for m in re.finditer(r"theorem (" + prefix + r"\w*)(.*?):=", s, flags=re.S):
        out[m.group(1)] = re.sub(r"\s+", " ", m.group(2)).strip()
    return out


a = stmts(open(sys.argv[1]).read(), sys.argv[3])
b = stmts(open(sys.argv[2]).read(), sys.argv[3])
bad = [k for k in a if a[k] != b.get(k)]
print("statements:", len(a), "unchanged" if not bad else f"CHANGED: {bad}")
sys.exit(1 if bad else 0)
