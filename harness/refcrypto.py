"""The DLMS protection construction written down once more, straight on the `cryptography` primitives and independently of
dlms_cosem.security: AES-GCM, IV = system title (8) || invocation counter (4, big endian), associated data = security-control
byte || authentication key (|| challenge for GMAC), tag truncated to 12 bytes.  The harness plays the meter and opens what the
client sent with THESE functions, so that a library which changes its own construction consistently on both sides (and would
still talk to itself) is told apart from the standard one.  (The construction itself is what C05 proves equal to the Lean
AES-GCM specification; this file is the same thing on the Python side.)"""
from cryptography.exceptions import InvalidTag
from cryptography.hazmat.primitives.ciphers import Cipher, algorithms, modes

TAG = 12


class BadTag(ValueError):
    pass


def _iv(title, ic):
    return bytes(title) + int(ic).to_bytes(4, "big")


def seal(scb, title, ic, key, plain, ak):
    e = Cipher(algorithms.AES(bytes(key)), modes.GCM(_iv(title, ic), None, min_tag_length=TAG)).encryptor()
    e.authenticate_additional_data(bytes([scb]) + bytes(ak))
    ct = e.update(bytes(plain)) + e.finalize()
    return ct + e.tag[:TAG]


def open_(scb, title, ic, key, ct, ak):
    ct = bytes(ct)
    if len(ct) < TAG:
        raise BadTag("short")
    d = Cipher(algorithms.AES(bytes(key)), modes.GCM(_iv(title, ic), ct[-TAG:], min_tag_length=TAG)).decryptor()
    d.authenticate_additional_data(bytes([scb]) + bytes(ak))
    try:
        return d.update(ct[:-TAG]) + d.finalize()
    except InvalidTag:
        raise BadTag("tag")


def gmac(scb, title, ic, key, ak, challenge):
    e = Cipher(algorithms.AES(bytes(key)), modes.GCM(_iv(title, ic), None, min_tag_length=TAG)).encryptor()
    e.authenticate_additional_data(bytes([scb]) + bytes(ak) + bytes(challenge))
    e.update(b"")
    e.finalize()
    return e.tag[:TAG]
