#!/bin/bash
# MANIFEST.setup_cmd: regenerate Gen from /repo and build every Lean module and the driver,
# from files on disk only (no network, no Mathlib `require`).
set -e
cd "$(dirname "$0")"
/venv/bin/python harness/extract.py lean/DlmsVerif/Gen || true
cd lean
lake build 2>&1 | tail -5
test -x .lake/build/bin/driver
